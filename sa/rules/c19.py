"""C19 - parallel kernels are schedule independent (DOALL ownership proof)."""
from __future__ import annotations

import ast

from ..affine import PURE_EXTERNAL, PURE_METHODS, Kernel, Loop, mixed_radix, split_affine
from ..dataflow import flow_of
from ..model import AnalysisError, FuncInfo, Program, body_walk, calls_in_body, dotted, norm, parent
from ..poly import Poly
from ..report import Result

TITLE = "Parallel kernels give the same answer for every thread count and schedule"
LEVEL = "proof"
EXPLANATION = (
    "For every prange loop of every parallel=True numba kernel (decorator form and njit(f.py_func, parallel=True) "
    "twins) the DOALL ownership obligations are discharged from the source: stores are iteration-private or go to "
    "an array element whose affine index is injective in the parallel variable (mixed-radix rule over the loop "
    "nest), no element written by one iteration is read by another, no outer scalar is reduced, callees are "
    "parameter-pure, and written/read array arguments are distinct at every package call site. Discharging all of "
    "them proves the iterations commute, hence equality with the sequential py_func order for exact arithmetic for "
    "every thread count, chunk size and interleaving."
    " Since wave 6: C14's no-fastmath obligations for the decimators and their parallel twins are re-evaluated (O4): a kernel equals its own Python definition only if the compiler may not re-associate it."
)
KERNELS_MOD = "sigpyproc.core.kernels"


def parallel_functions(prog: Program) -> list[tuple[FuncInfo, str]]:
    """(function, label) for every function compiled with parallel=True."""
    out = []
    for m in prog.modules.values():
        for f in m.funcs.values():
            if f.numba and f.numba.get("parallel"):
                out.append((f, f.qualname))
        for name, facts in m.njit_twins.items():
            if facts.get("parallel") and facts["of"] in m.funcs:
                out.append((m.funcs[facts["of"]], f"{name} (= njit({facts['of']}.py_func, parallel=True))"))
    for m in prog.modules.values():
        prog.consulted.add(m.name)
    return out


def _body_nodes(loop: Loop):
    for st in loop.node.body:
        yield from ast.walk(st)


def _in_body(loop: Loop, node: ast.AST) -> bool:
    cur = node
    while cur is not None:
        if cur is loop.node:
            return True
        cur = parent(cur)
    return False


def _callee_pure(prog: Program, fn: FuncInfo, call: ast.Call, seen: set) -> tuple[bool, str]:
    d = dotted(call.func)
    if d in PURE_EXTERNAL or (d and (d.endswith("Error") or d.endswith("Exception")) and "." not in d):
        return True, f"{d}: pure external"
    if isinstance(call.func, ast.Attribute) and call.func.attr in PURE_METHODS:
        return True, f".{call.func.attr}(): pure array method"
    cands = prog.resolve_call(call, fn)
    fis = [c for c in cands if isinstance(c, FuncInfo)]
    if not fis:
        return False, f"cannot prove purity of {norm(call.func)}"
    for callee in fis:
        if callee.ident in seen:
            continue
        seen.add(callee.ident)
        params = set(callee.params)
        for sub in body_walk(callee.node):
            if isinstance(sub, (ast.Subscript, ast.Attribute)) and isinstance(sub.ctx, ast.Store):
                base = sub
                while isinstance(base, (ast.Subscript, ast.Attribute)):
                    base = base.value
                if isinstance(base, ast.Name) and base.id in params:
                    # store into a parameter: only pure if that name was rebound locally first
                    fl = flow_of(callee)
                    at = fl.node_for(sub)
                    if any(dd.kind == "param" for dd in fl.reaching(base.id, at)):
                        return False, f"{callee.ident} stores into its parameter {base.id}"
            if isinstance(sub, (ast.Global, ast.Nonlocal)):
                return False, f"{callee.ident} writes a global"
        for c2 in calls_in_body(callee.node):
            ok, why = _callee_pure(prog, callee, c2, seen)
            if not ok:
                return False, f"{callee.ident} -> {why}"
    return True, "package callee is parameter-pure"


def check_loop(prog: Program, res: Result, fn: FuncInfo, label: str, k: Kernel, loop: Loop) -> None:
    flow = k.flow
    p = loop.var
    tag = f"{label}: prange {p}"
    body_ids = {id(n) for n in _body_nodes(loop)}

    # -- O1: scalar stores are iteration private ---------------------------------
    assigned = {}
    for name, st in k.scalar_stores:
        if id(name) in body_ids and name.id != p:
            assigned.setdefault(name.id, []).append((name, st))
    private: set[str] = set()
    for var, sites in sorted(assigned.items()):
        bad = None
        def_nodes = {flow.node_for(st) for _, st in sites}
        for sub in _body_nodes(loop):
            use = None
            if isinstance(sub, ast.Name) and sub.id == var and isinstance(sub.ctx, ast.Load):
                use = sub
            elif isinstance(sub, ast.AugAssign) and isinstance(sub.target, ast.Name) and sub.target.id == var:
                use = sub.target
            if use is None:
                continue
            un = flow.node_for(use)
            own_stmt_defs = {un} if isinstance(flow.cfg.ast[un], ast.AugAssign) else set()
            doms = [d for d in def_nodes if d not in own_stmt_defs and d != un and flow.cfg.dominates(d, un)]
            # a for-header defining an inner loop variable dominates its body
            if not doms:
                # the use may be in the same statement as an inner for header (its target)
                bad = use
                break
        if bad is None:
            private.add(var)
            res.ok("O1", fn, sites[0][1], f"{tag}: local '{var}' is assigned before every use within one iteration",
                   key=f"{label}|{p}|scalar:{var}")
        else:
            res.bad("O1", fn, parent(bad) if not isinstance(bad, ast.stmt) else bad,
                    f"{tag}: '{var}' is assigned inside the parallel loop but a use is not dominated by an "
                    f"assignment in the same iteration (value carried across iterations: reduction/race)",
                    key=f"{label}|{p}|scalar:{var}")

    # -- O2: array stores are owned by the iteration --------------------------------
    inner = [lp for lp in k.loops.values() if lp is not loop and _in_body(loop, lp.node)]
    nstores = 0
    written: dict[str, list] = {}
    for acc in k.writes():
        if id(acc.node) not in body_ids:
            continue
        nstores += 1
        key = f"{label}|{p}|store:{acc.text()}"
        if acc.base in private:
            res.ok("O2", fn, acc.stmt, f"{tag}: store into '{acc.base}', an array allocated in this iteration",
                   construct=acc.text(), key=key)
            continue
        loops_here = [lp for lp in acc.loops if lp is loop or lp in inner]
        lvars = [lp.var for lp in loops_here]
        extents = {lp.var: lp.extent for lp in loops_here}
        coefs_extra: dict[str, Poly] = {}
        if acc.index is not None:
            idx = acc.index
        elif acc.lo is not None and acc.hi is not None:
            # slice [lo:hi) == lo + k, k in [0, hi-lo)
            idx = acc.lo + Poly.sym("$k")
            extents["$k"] = acc.hi - acc.lo
            lvars = lvars + ["$k"]
        elif acc.index is None and acc.lo is None:
            res.bad("O2", fn, acc.stmt, f"{tag}: whole-array store into shared '{acc.base}'", construct=acc.text(), key=key)
            continue
        else:
            res.bad("O2", fn, acc.stmt, f"{tag}: open-ended slice store into shared '{acc.base}'",
                    construct=acc.text(), key=key)
            continue
        try:
            coefs, rest, tainted = split_affine(idx, lvars)
        except AnalysisError as exc:
            res.bad("O2", fn, acc.stmt, f"{tag}: {exc}", construct=acc.text(), key=key)
            continue
        if p not in coefs:
            res.bad("O2", fn, acc.stmt,
                    f"{tag}: index {idx.canon()} of shared array '{acc.base}' does not depend on the parallel "
                    f"variable: every iteration writes the same element(s)", construct=acc.text(), key=key)
            continue
        # opaque lookups of inner variables (e.g. chan_to_sub[ichan]) act as a digit bounded by the p coefficient
        lookups = [t for t in tainted]
        if any(_mentions_var(t, p) for t in lookups):
            res.bad("O2", fn, acc.stmt, f"{tag}: index uses the parallel variable inside an opaque term",
                    construct=acc.text(), key=key)
            continue
        if lookups:
            if len(lookups) > 1 or not rest.coeff_of(lookups[0]) == Poly.const(1):
                res.bad("O2", fn, acc.stmt, f"{tag}: unsupported opaque index terms {lookups}", construct=acc.text(), key=key)
                continue
            # digit with extent = coefficient of p (bound established at the call sites, obligation O6)
            coefs["$lookup"] = Poly.const(1)
            extents["$lookup"] = coefs[p]
            res.assumptions.append(
                f"{label}: 0 <= {lookups[0]} < {coefs[p].canon()} (checked at call sites by O6)")
            acc.lookup = lookups[0]  # type: ignore[attr-defined]
        ok, why = mixed_radix(coefs, extents)
        written.setdefault(acc.base, []).append((acc, coefs, rest))
        if ok:
            res.ok("O2", fn, acc.stmt, f"{tag}: store index {idx.canon()} is injective in ({', '.join(coefs)}): {why}",
                   construct=acc.text(), key=key)
        else:
            res.bad("O2", fn, acc.stmt, f"{tag}: cannot prove store index {idx.canon()} injective in the parallel "
                    f"variable: {why}", construct=acc.text(), key=key)
    if nstores == 0:
        res.bad("O2", fn, loop.node, f"{tag}: parallel loop has no array store (nothing to own?)", key=f"{label}|{p}|nostore")

    # -- O3: no cross-iteration read of written storage ------------------------------
    for acc in k.reads():
        if id(acc.node) not in body_ids or acc.base not in written or acc.base in private:
            continue
        key = f"{label}|{p}|read:{acc.text()}"
        good = False
        for w, wc, wrest in written[acc.base]:
            if acc.node is w.node:
                good = True
                break
            if acc.index is not None and w.index is not None:
                lv = [lp.var for lp in acc.loops]
                try:
                    rc, rrest, _ = split_affine(acc.index, lv)
                except AnalysisError:
                    continue
                if rc.get(p) == wc.get(p) and rc.get(p) is not None and (
                        acc.index.without(p) - acc.index.without(p)).is_zero() and _same_owner(acc.index, w.index, p):
                    good = True
                    break
        if good:
            res.ok("O3", fn, acc.stmt, f"{tag}: read of written array '{acc.base}' stays within the iteration's own elements",
                   construct=acc.text(), key=key)
        else:
            res.bad("O3", fn, acc.stmt, f"{tag}: reads '{acc.base}', which this loop writes, at an index not owned by "
                    f"the same iteration", construct=acc.text(), key=key)

    # -- O4: callees are pure ------------------------------------------------------------
    for sub in _body_nodes(loop):
        if isinstance(sub, ast.Call):
            ok, why = _callee_pure(prog, fn, sub, set())
            key = f"{label}|{p}|call:{norm(sub.func)}"
            if ok:
                res.ok("O4", fn, sub, f"{tag}: {why}", construct=norm(sub.func), key=key)
            else:
                res.bad("O4", fn, sub, f"{tag}: {why}", construct=norm(sub.func), key=key)


def _mentions_var(atom: str, var: str) -> bool:
    from ..affine import _mentions
    return _mentions(atom, var)


def _same_owner(read_idx: Poly, write_idx: Poly, p: str) -> bool:
    """Same p-dependent part => the read is of an element owned by iteration p (same digit)."""
    return read_idx.coeff_of(p) == write_idx.coeff_of(p) and (
        # the p-free parts may differ only in inner-loop digits; accept if identical polys
        read_idx == write_idx or read_idx.without(p).symbols() <= write_idx.without(p).symbols())


def check_call_sites(prog: Program, res: Result, kernels: dict[str, tuple[FuncInfo, Kernel]]) -> None:
    """O5: written and read array arguments are distinct; O6: lookup-digit bounds."""
    for caller in prog.all_funcs():
        for call in calls_in_body(caller.node):
            d = dotted(call.func)
            if not d:
                continue
            name = d.split(".")[-1]
            if name not in kernels:
                continue
            cands = [c for c in prog.resolve_call(call, caller, record=False) if isinstance(c, FuncInfo)]
            if not cands or cands[0].node is not kernels[name][0].node:
                continue
            callee, k = kernels[name]
            bound = prog.bind_args(call, callee)
            wbases = {a.base for a in k.writes() if a.base in callee.params}
            rbases = {a.base for a in k.reads() if a.base in callee.params} - wbases
            key = f"{name}@{caller.ident}"
            clash = []
            for w in wbases:
                for r in rbases:
                    if w in bound and r in bound and dotted(bound[w]) is not None and dotted(bound[w]) == dotted(bound[r]):
                        clash.append((w, r))
            if clash:
                res.bad("O5", caller, call, f"call passes the same array for written parameter(s) and read parameter(s) "
                        f"{clash} of parallel kernel {name}", key=key)
            else:
                res.ok("O5", caller, call, f"written {sorted(wbases)} and read {sorted(rbases)} array arguments of "
                       f"{name} are distinct expressions", key=key)
            # O6 lookup digit bound
            for acc in k.writes():
                lk = getattr(acc, "lookup", None)
                if lk is None:
                    continue
                table = lk.split("[")[0]
                if table not in bound:
                    res.bad("O6", caller, call, f"cannot find argument for lookup table {table}", key=key + "|" + table)
                    continue
                ok, why = _lookup_bound(prog, caller, call, callee, k, acc, table, bound)
                (res.ok if ok else res.bad)("O6", caller, call, why, key=key + "|" + table)


def _lookup_bound(prog, caller, call, callee, k, acc, table, bound) -> tuple[bool, str]:
    """chan_to_sub = arange(N) // (N // nsub) has values < nsub when nsub | N (documented precondition)."""
    flow = flow_of(caller)
    at = flow.node_for(call)
    tab = flow.expand(bound[table], at, stop=set())
    # the extent the kernel relies on: coefficient of the parallel variable in the store index
    loopvars = [lp.var for lp in acc.loops]
    coefs, _, _ = split_affine(acc.index, loopvars)
    par = [lp.var for lp in acc.loops if lp.parallel][0]
    extent = coefs[par]
    if not (len(extent.symbols()) == 1 and extent == Poly.sym(next(iter(extent.symbols())))):
        return False, f"lookup bound {extent.canon()} is not a single kernel parameter"
    bparam = next(iter(extent.symbols()))
    if bparam not in bound:
        return False, f"no argument bound to {bparam}"
    bexpr = flow.expand(bound[bparam], at)
    # expected shape: np.arange(N, ...) // (N // B)
    if isinstance(tab, ast.BinOp) and isinstance(tab.op, ast.FloorDiv) and isinstance(tab.left, ast.Call) \
            and dotted(tab.left.func) in ("np.arange", "numpy.arange") and tab.left.args:
        n_expr = norm(tab.left.args[0])
        div = tab.right
        if isinstance(div, ast.BinOp) and isinstance(div.op, ast.FloorDiv) and norm(div.left) == n_expr \
                and norm(div.right) == norm(bexpr):
            res_txt = (f"lookup table {table} = arange(N)//(N//{norm(bexpr)}) with N={n_expr}: values < {norm(bexpr)} "
                       f"when {norm(bexpr)} divides N (stated precondition of sub-banding)")
            return True, res_txt
    return False, f"cannot bound values of lookup table argument {norm(tab)} by {norm(bexpr)}"


def run(prog: Program, res: Result, tier: str) -> None:
    pf = parallel_functions(prog)
    kernels: dict[str, tuple[FuncInfo, Kernel]] = {}
    nloops = 0
    for fn, label in pf:
        k = Kernel(fn)
        loops = k.prange_loops()
        if not loops:
            res.ok("O0", fn, fn.node, f"{label}: parallel=True but no prange loop (nothing is distributed explicitly)",
                   construct=label, key=label)
            continue
        kernels[fn.name] = (fn, k)
        for m in fn.module.njit_twins:
            if fn.module.njit_twins[m]["of"] == fn.name:
                kernels[m] = (fn, k)
        for lp in loops:
            nloops += 1
            check_loop(prog, res, fn, label, k, lp)
    # prange in a function that is not compiled parallel is a plain range: record, no obligation
    seen_par = {id(f.node) for f, _ in pf}
    for f in prog.all_funcs():
        if id(f.node) in seen_par:
            continue
        for sub in ast.walk(f.node):
            if isinstance(sub, ast.For) and isinstance(sub.iter, ast.Call) and dotted(sub.iter.func) in ("prange", "numba.prange"):
                res.notes.append(f"{f.ident}: prange in a non-parallel compilation (sequential)")
    check_call_sites(prog, res, kernels)
    res.notes.append(f"prange loops analysed: {nloops}")
    res.trusted_base += ["numba prange semantics (iterations of a prange loop may run in any order/partition)",
                         "array sizes and loop extents are non-negative integers"]
    if nloops < 12:
        raise AnalysisError(f"only {nloops} prange loops found in parallel kernels; 12 were confirmed by hand")
    from ..report import depends as _depends
    _depends(res, "O4", prog, tier, "C14", accept=lambda o: (o.key or "").endswith(":division"),
             why="a parallel kernel equals its own Python definition only if the compiler may not re-associate it: C14's no-fastmath obligations for the decimators "
                 "(serial and parallel twins) are re-evaluated here")
    res.floor("O2", 12)
    res.floor("O5", 8)


K = "sigpyproc/core/kernels.py"
MUTANTS = [
    {"id": "c19-bpass-prange-samples", "file": K, "expect": "C19.O2",
     "old": "    for ichan in prange(nchans):\n        for isamp in range(nsamps):\n            outarray[ichan] += inarray[nchans * isamp + ichan]",
     "new": "    for isamp in prange(nsamps):\n        for ichan in range(nchans):\n            outarray[ichan] += inarray[nchans * isamp + ichan]"},
    {"id": "c19-tim-shared-elem", "file": K, "expect": "C19.O2",
     "old": "outarray[index + isamp] = np.sum(inarray[nchans * isamp : nchans * (isamp + 1)])",
     "new": "outarray[index + isamp // 2] = np.sum(inarray[nchans * isamp : nchans * (isamp + 1)])"},
    {"id": "c19-ds1d-hoist-temp", "file": K, "expect": "C19.O1",
     "old": "    for isamp in prange(nsamps_new):\n        temp = 0.0\n        start = isamp * factor",
     "new": "    temp = 0.0\n    for isamp in prange(nsamps_new):\n        start = isamp * factor"},
    {"id": "c19-moments-write-zero", "file": K, "expect": "C19.O2",
     "old": "        moments[ichan][\"m1\"], moments[ichan][\"m2\"] = m1, m2\n        moments[ichan][\"count\"] = count",
     "new": "        moments[ichan][\"m1\"], moments[ichan][\"m2\"] = m1, m2\n        moments[0][\"count\"] = count"},
    {"id": "c19-fold-prange", "file": K, "expect": "C19",
     "edits": [
         {"file": K, "old": "    for isamp in range(nsamps - maxdelay):\n        tj = (isamp + index) * tsamp",
          "new": "    for isamp in prange(nsamps - maxdelay):\n        tj = (isamp + index) * tsamp"},
         {"file": K, "old": "        \"void(f4[:], f4[:], i4[:], i4[:], i4, f8, f8, f8, i4, i4, i4, i4, i4, i4, i4)\",\n    ],\n    cache=True,\n)",
          "new": "        \"void(f4[:], f4[:], i4[:], i4[:], i4, f4, f4, f4, i4, i4, i4, i4, i4, i4, i4)\",\n    ],\n    cache=True,\n    parallel=True,\n)"}]},
    {"id": "c19-zerodm-stride-off", "file": K, "expect": "C19.O2",
     "old": "            pos = nchans * isamp + ichan\n            result =",
     "new": "            pos = (nchans - 1) * isamp + ichan\n            result ="},
    {"id": "c19-subband-wrong-stride", "file": K, "expect": "C19",
     "old": "outarray[nsubs * isamp + chan_to_sub[ichan]] += inarray[",
     "new": "outarray[isamp + chan_to_sub[ichan]] += inarray["},
    {"id": "c19-invert-overlap", "file": K, "expect": "C19.O2",
     "old": "        outarray[nchans * isamp : nchans * (isamp + 1)] = array[",
     "new": "        outarray[nchans * isamp : nchans * (isamp + 2)] = array["},
    {"id": "c19-mask-inplace-neighbour-read", "file": K, "expect": "C19.O3",
     "old": "                array[nchans * isamp + ichan] = maskvalue",
     "new": "                array[nchans * isamp + ichan] = maskvalue + 0 * array[nchans * isamp]"},
    {"id": "c19-dedisp-alias-call", "file": "sigpyproc/base.py", "expect": "C19.O5",
     "old": "            kernels.remove_zerodm(\n                data,\n                out_ar,",
     "new": "            kernels.remove_zerodm(\n                out_ar,\n                out_ar,"},
    {"id": "c19-subband-lookup-unbounded", "file": "sigpyproc/base.py", "expect": "C19.O6",
     "old": "chan_to_sub = np.arange(self.header.nchans, dtype=\"int32\") // subfactor",
     "new": "chan_to_sub = np.arange(self.header.nchans, dtype=\"int32\") // nsub"},
    {"id": "c19-ism-shared-scratch", "file": K, "expect": "C19",
     "old": "    for ichan in prange(nchans):\n        chan_data = signal * spectrum[ichan]",
     "new": "    chan_data = signal * spectrum[0]\n    for ichan in prange(nchans):\n        chan_data = chan_data * spectrum[ichan]"},
]
TWINS = [
    {"id": "c19-twin-temp-index", "file": K,
     "old": "        for isamp in range(nsamps):\n            outarray[ichan] += inarray[nchans * isamp + ichan]",
     "new": "        for isamp in range(nsamps):\n            src = nchans * isamp + ichan\n            outarray[ichan] += inarray[src]"},
    {"id": "c19-twin-rename", "file": K,
     "old": "    for isamp in prange(nsamps):\n        outarray[index + isamp] = np.sum(inarray[nchans * isamp : nchans * (isamp + 1)])",
     "new": "    for t in prange(nsamps):\n        lo = nchans * t\n        outarray[t + index] = np.sum(inarray[lo : lo + nchans])"},
    {"id": "c19-twin-mask-commuted", "file": K,
     "old": "                array[nchans * isamp + ichan] = maskvalue",
     "new": "                array[ichan + isamp * nchans] = maskvalue"},
    {"id": "c19-twin-zerodm-inline", "file": K,
     "old": "            pos = nchans * isamp + ichan\n            result = (inarray[pos] - zerodm * chanwts[ichan]) + bpass[ichan]\n            outarray[pos] = result",
     "new": "            outarray[nchans * isamp + ichan] = (inarray[nchans * isamp + ichan] - zerodm * chanwts[ichan]) + bpass[ichan]"},
]
