"""C15 - robust normalisation is finite, affine-equivariant and axis-consistent (structural clauses)."""
from __future__ import annotations

import ast

from ..dataflow import flow_of
from ..model import AnalysisError, FuncInfo, Program, body_walk, calls_in_body, dotted, norm, parent
from ..report import Result

TITLE = "Robust normalisation is finite, affine-equivariant and axis-consistent"
LEVEL = "other"
TECHNIQUE = "static analysis: reaching definitions + guard for the zero-scale fallback, dispatch exhaustiveness, lane-discipline rule"
EXPLANATION = (
    "Narrow claim - structural clauses only: (R1) every definition of the scale that reaches the division in estimate_zscore "
    "is either the np.where(zero_scales, 1, scale) replacement or reaches it only when no scale is (close to) zero, so "
    "z-scores of finite data are finite, and estimate_zscore as a whole equals its definition (location from loc_method, scale "
    "from scale_method, 'norm' = 0 / 1, the guarded division, the three reported arrays); (R2) every name in the ScaleMethods / LocMethods literals has an implementation "
    "and unknown names raise ValueError; (R3) each axis-generic scale estimator either delegates to "
    "apply_along_axes(<1-D estimator>, data, axis) - which flattens for axis=None and iterates lanes otherwise - or forms its "
    "lanes only through axis=-parameterised reductions; it never indexes the input positionally to form lanes, and no 1-D "
    "estimator returns an integer on some path (np.apply_along_axis sizes its buffer from the first lane), so computing "
    "along an axis equals applying the 1-D estimator per lane; (R4) the keepdims path re-expands exactly the reduced axes; "
    "(R5) the double-MAD estimator is mirror-symmetric: every left-side quantity has a right-side twin that is its mirror image, "
    "samples below / above the median take their own side's MAD and a sample on the median takes a value that is invariant "
    "under swapping the sides - a necessary condition of sign-equivariance for a < 0. "
    "Not decided: affine equivariance and finiteness of the individual estimators' arithmetic - numeric clauses. "
    "Since F35, R3 also forbids an unqualified squeeze in the estimators (a lane axis of length 1 survives)."
    ' Since wave 6: the scale estimators behind estimate_scale equal their textbook definitions (R1 estimator:*), and no optional numeric parameter (axis) is used for its truth value in the estimators or the containers that call them (R3).'
)
S = "sigpyproc.core.stats"
U = "sigpyproc.utils"
AXIS_REDUCERS = {"np.median", "np.mean", "np.percentile", "np.nanmedian", "np.nanmean", "np.std", "np.diff", "astrostats.biweight_scale",
                 "np.sum", "np.nanpercentile"}


def run(prog: Program, res: Result, tier: str) -> None:
    prog.consulted.update({S, U, "sigpyproc.core.custom_types"})
    # ---- R1 zero-scale guard -------------------------------------------------------------------
    ez = prog.func(S, "estimate_zscore")
    flow = flow_of(ez)
    cfg = flow.cfg
    divs = [c for c in calls_in_body(ez.node) if dotted(c.func) in ("np.divide", "np.true_divide")]
    divs_op = [n for n in body_walk(ez.node) if isinstance(n, ast.BinOp) and isinstance(n.op, ast.Div) and "scale" in norm(n.right)]
    key = "zscore:guard"
    if len(divs) + len(divs_op) != 1:
        res.bad("R1", ez, ez.node, f"expected one division by the scale, found {len(divs) + len(divs_op)}", construct="division", key=key)
    else:
        dv = divs[0] if divs else divs_op[0]
        den = dv.args[1] if divs else dv.right
        dn = cfg.node_for(dv)
        ex = flow.expand(den, dn)

        def zero_test(z: ast.AST, raw: str) -> bool:
            """z is `np.isclose(raw, 0)` or `raw == 0`."""
            if isinstance(z, ast.Call) and dotted(z.func) == "np.isclose" and len(z.args) >= 2 and norm(z.args[0]) == raw and norm(z.args[1]) in ("0", "0.0"):
                return True
            return isinstance(z, ast.Compare) and len(z.ops) == 1 and isinstance(z.ops[0], ast.Eq) and norm(z.left) == raw and norm(z.comparators[0]) in ("0", "0.0")

        def replaced(w: ast.AST, raw: str) -> bool:
            """w is np.where(<zero test of raw>, 1, raw)."""
            return isinstance(w, ast.Call) and dotted(w.func) == "np.where" and len(w.args) == 3 and norm(w.args[1]) in ("1", "1.0") and \
                norm(w.args[2]) == raw and zero_test(w.args[0], raw)

        def some(a: ast.AST):
            """Z of `np.any(Z)` / `Z.any()`."""
            if isinstance(a, ast.Call) and dotted(a.func) in ("np.any", "np.sometrue") and len(a.args) == 1:
                return a.args[0]
            if isinstance(a, ast.Call) and isinstance(a.func, ast.Attribute) and a.func.attr == "any" and not a.args and not a.keywords:
                return a.func.value
            return None

        ok = False
        why = ""
        if isinstance(ex, ast.IfExp):
            # replaced only when some lane has a zero scale: if np.any(Z): scale = np.where(Z, 1, scale)
            t = ex.test
            for body, other in ((ex.body, ex.orelse), (ex.orelse, ex.body)):
                raw = norm(other)
                if replaced(body, raw):
                    anyz = t.operand if (body is ex.orelse and isinstance(t, ast.UnaryOp) and isinstance(t.op, ast.Not)) else t
                    if body is ex.orelse and anyz is t:
                        continue
                    ok = some(anyz) is not None and zero_test(some(anyz), raw)
                    if not ok:
                        why = "the zero-scale replacement is not applied exactly when some scale is (close to) zero"
        elif isinstance(ex, ast.Call):
            ok = replaced(ex, norm(ex.args[2])) if len(ex.args) == 3 else False
        if not ok and isinstance(den, ast.Name):
            # the same shape stated on the variable itself (the earlier value may be any merge of definitions):
            #   <defs P of scale> ; if np.any(Z(scale)): scale = np.where(Z(scale), 1, scale) ; ... / scale
            ds = flow.reaching(den.id, dn)
            fixes = [d for d in ds if d.kind == "assign" and isinstance(d.value, ast.Call) and dotted(d.value.func) == "np.where" and len(d.value.args) == 3
                     and norm(d.value.args[2]) == den.id]
            prior = [d for d in ds if d not in fixes]
            if len(fixes) == 1 and prior:
                g = parent(fixes[0].stmt)
                if isinstance(g, ast.If) and not g.orelse and fixes[0].stmt in g.body:
                    gn = cfg.node_for(g)
                    anyz = g.test
                    zarg = some(anyz)
                    zx = flow.expand(zarg, gn, stop={den.id}) if zarg is not None else None
                    wx = flow.expand(fixes[0].value, fixes[0].node, stop={den.id})
                    same_value = {id(d) for d in flow.reaching(den.id, gn)} == {id(d) for d in prior}
                    ok = zx is not None and zero_test(zx, den.id) and replaced(wx, den.id) and same_value and cfg.dominates(gn, dn)
                    if not ok:
                        why = "the zero-scale replacement is not np.where(<scale is zero>, 1, scale) under if np.any(<scale is zero>) on the value that is divided by"
        if ok:
            res.ok("R1", ez, dv, "zero (or tiny) scales are replaced by 1 before the division; other paths have no zero scale", key=key)
        else:
            res.bad("R1", ez, dv, why or "the scale reaches the division without a zero-scale fallback: constant lanes give inf/NaN z-scores", key=key)
    # the function as a whole equals its definition: loc from loc_method, scale from scale_method ("norm" = 0 / 1), the
    # guarded division, the three reported arrays
    from .. import kernelspec as _ks
    verdict_z, why_z = _ks.compare(ez)
    if verdict_z == "incomparable":
        raise AnalysisError(f"estimate_zscore cannot be compared with its reference definition: {why_z[0]}")
    (res.ok if verdict_z == "same" else res.bad)("R1", ez, ez.node, ("; ".join(why_z))[:700], construct="estimate_zscore", key="zscore:definition")
    from ..normalform import canon
    # z = (data - loc) / scale in place, and what is reported is what was used
    okf = False
    if len(divs) == 1 and not divs_op:
        dv = divs[0]
        outk = next((k.value for k in dv.keywords if k.arg == "out"), dv.args[2] if len(dv.args) > 2 else None)
        z = dv.args[0] if dv.args else None
        if isinstance(z, ast.Name) and isinstance(outk, ast.Name) and outk.id == z.id and len(dv.args) >= 2:
            zd = [d for d in flow.reaching(z.id, cfg.node_for(dv)) if d.kind == "assign"]
            rets = [s_ for s_ in body_walk(ez.node) if isinstance(s_, ast.Return) and isinstance(s_.value, ast.Call) and dotted(s_.value.func) == "ZScoreResult"]
            if len(zd) == 1 and len(rets) == 1:
                sub = zd[0].value
                loc_used = None
                if isinstance(sub, ast.Call) and dotted(sub.func) == "np.subtract" and len(sub.args) >= 2 and norm(sub.args[0]) == "data":
                    loc_used = flow.expand(sub.args[1], zd[0].node)
                elif isinstance(sub, ast.BinOp) and isinstance(sub.op, ast.Sub) and norm(sub.left) == "data":
                    loc_used = flow.expand(sub.right, zd[0].node)
                kw = {k.arg: k.value for k in rets[0].value.keywords}
                for name_, a_ in zip(("data", "loc", "scale"), rets[0].value.args):
                    kw.setdefault(name_, a_)
                rn = cfg.node_for(rets[0])

                def unwrap(e):
                    return e.args[0] if isinstance(e, ast.Call) and dotted(e.func) in ("np.asarray", "np.asanyarray", "np.array") and e.args else e
                if loc_used is not None and {"data", "loc", "scale"} <= set(kw):
                    okf = norm(kw["data"]) == z.id and canon(flow.expand(unwrap(kw["loc"]), rn)) == canon(loc_used) and \
                        canon(flow.expand(unwrap(kw["scale"]), rn)) == canon(flow.expand(dv.args[1], cfg.node_for(dv)))
    (res.ok if okf else res.bad)("R1", ez, ez.node, "z = (data - loc) / scale, and the loc/scale actually used are reported" if okf else
                                 "estimate_zscore no longer computes (data - loc)/scale with the guarded scale", construct="zscore", key="zscore:formula")
    okk = True
    for callee in ("estimate_loc", "estimate_scale"):
        cs_ = [c for c in calls_in_body(ez.node) if dotted(c.func) == callee]
        okk = okk and len(cs_) == 1
        for c in cs_:
            b_ = prog.bind_args(c, prog.func(S, callee))
            okk = okk and norm(b_.get("axis", ast.Constant(None))) == "axis" and norm(b_.get("keepdims", ast.Constant(False))) == "True" and \
                norm(next(iter(b_.values()))) == "data"
    (res.ok if okk else res.bad)("R4", ez, ez.node, "loc and scale are estimated along the same axis with keepdims (broadcast against the input)" if okk else
                                 "loc and scale are not both estimated with (axis, keepdims=True)", construct="keepdims", key="zscore:keepdims")

    # ---- R2 exhaustiveness ---------------------------------------------------------------------------
    def literal(name):
        n = prog.const("sigpyproc.core.custom_types", name)
        if isinstance(n, ast.Subscript) and isinstance(n.slice, ast.Tuple):
            return [e.value for e in n.slice.elts]
        raise AnalysisError(f"{name} literal not found")
    scale_names = literal("ScaleMethods")
    loc_names = literal("LocMethods")
    es = prog.func(S, "estimate_scale")
    # the dispatch table is whatever dict literal is looked up with `method` (`T.get(method)` / `T[method]`), and the
    # implementation is called through whatever local receives that lookup - by role, not by name
    lookups = [s for s in body_walk(es.node) if isinstance(s, (ast.Assign, ast.AnnAssign)) and s.value is not None and (
        (isinstance(s.value, ast.Call) and isinstance(s.value.func, ast.Attribute) and s.value.func.attr == "get" and isinstance(s.value.func.value, ast.Name)
         and s.value.args and norm(s.value.args[0]) == "method") or
        (isinstance(s.value, ast.Subscript) and isinstance(s.value.value, ast.Name) and norm(s.value.slice) == "method"))]
    tname = (lookups[0].value.func.value.id if isinstance(lookups[0].value, ast.Call) else lookups[0].value.value.id) if lookups else "scale_methods"
    fname = impl_local = norm(lookups[0].targets[0] if isinstance(lookups[0], ast.Assign) else lookups[0].target) if lookups else "scale_func"
    table = [s for s in body_walk(es.node) if (isinstance(s, ast.AnnAssign) and norm(s.target) == tname) or
             (isinstance(s, ast.Assign) and len(s.targets) == 1 and norm(s.targets[0]) == tname)]
    impl = {}
    if table and isinstance(table[0].value, ast.Dict):
        for k, v in zip(table[0].value.keys, table[0].value.values):
            impl[k.value] = dotted(v)
    from ..pathcond import guarded, holds as _holds, path_conditions as _pcs, rejection as _rejection
    pcs = _pcs(flow_of(es))
    direct = set()
    for r_ in [s_ for s_ in body_walk(es.node) if isinstance(s_, ast.Return) and s_.value is not None]:
        from ..pathcond import selected_by as _selected_by
        if _selected_by(pcs, r_, "method", "std") is not None and canon(r_.value) == canon("np.std(data, axis=axis, keepdims=keepdims, dtype=np.float64)"):
            direct.add("std")
    missing = [n for n in scale_names if n not in impl and n not in direct]
    undefined = [f for f in impl.values() if not prog.has_func(S, f or "?")]
    impl_calls = [c for c in calls_in_body(es.node) if dotted(c.func) == fname]
    raises = bool(impl_calls) and all((f_ := _holds(pcs, c, f"{fname} is not None")) is not None and "ValueError" in (_rejection(pcs, f_) or ())
                                      for c in impl_calls)
    key = "scale:exhaustive"
    # doublemad is implemented but only reachable with the explicit name (not in ScaleMethods): allowed extra
    if not missing and not undefined and raises:
        res.ok("R2", es, table[0] if table else es.node, f"all {len(scale_names)} ScaleMethods have an implementation; unknown names raise ValueError", key=key)
    else:
        res.bad("R2", es, es.node, f"ScaleMethods without implementation: {missing}; table entries without function: {undefined}; unknown raises: {raises}",
                construct="scale dispatch", key=key)
    el = prog.func(S, "estimate_loc")
    pcl = _pcs(flow_of(el))
    want_loc = {"mean": canon("np.mean(data, axis=axis, keepdims=keepdims, dtype=np.float64)"), "median": canon("np.median(data, axis=axis, keepdims=keepdims)")}
    rets_l = [s_ for s_ in body_walk(el.node) if isinstance(s_, ast.Return) and s_.value is not None]
    found = {}
    ok = True
    # path-wise (normal form): each returned value with the values its conditions leave for `method` - whether the
    # function returns in each branch or assigns a local and returns once
    from ..normalform import normal_form as _nf15
    nfl = _nf15(el)
    for e_ in nfl.returns():
        names_here = [n for n in loc_names if nfl.selects(e_, "method", n)]
        if len(names_here) != 1:
            ok = False   # a return that is not selected by exactly one method name: unknown names would not raise
            continue
        found[names_here[0]] = e_.text()
    ok = ok and any(e_.excludes("method", *loc_names) for e_ in nfl.raises())
    ok = ok and set(found) == set(loc_names) and all(found[n] == want_loc.get(n, found[n]) for n in loc_names) and \
        any(isinstance(s_, ast.Raise) for s_ in body_walk(el.node))
    (res.ok if ok else res.bad)("R2", el, el.node, f"LocMethods {loc_names} each reduce along (axis, keepdims); unknown names raise" if ok else
                                "estimate_loc: a LocMethods name has no branch or the axis/keepdims are not forwarded", construct="loc dispatch", key="loc:exhaustive")

    # ---- R3 lane discipline --------------------------------------------------------------------------------
    aa = prog.func(U, "apply_along_axes")
    from .. import kernelspec
    verdict, why_aa = kernelspec.compare(aa, "apply_along_axes")
    if verdict == "incomparable":
        raise AnalysisError(f"apply_along_axes cannot be compared with its reference definition: {why_aa[0]}")
    ok = verdict == "same"
    (res.ok if ok else res.bad)("R3", aa, aa.node, "apply_along_axes: axis=None -> f(flattened); else the named axes are moved first, merged, and f is "
                                "applied to each lane" if ok else "apply_along_axes no longer flattens for axis=None / iterates lanes of the moved axes",
                                construct="apply_along_axes", key="apply_along_axes")
    for name, fname in sorted(impl.items()):
        if not fname or not prog.has_func(S, fname):
            continue
        f = prog.func(S, fname)
        _lane_rule(prog, res, f, name)

    # ---- R3 (cont.) a lane axis of length 1 survives: no unqualified squeeze in the estimators (F35) --------------------
    from ..lints import check_no_bare_squeeze
    check_no_bare_squeeze(prog, res, "R3", [S], "for data of shape (1, n) reduced along axis=1 the kept axis disappears too and the result no "
                          "longer broadcasts against the input")
    # ---- R3 (cont.) axis = 0 is an axis: no optional numeric parameter is tested for its truth value, in the estimators and in
    # the containers that hand an axis to them (a `x if axis else None` in a caller turns axis=0 into the whole-array reduction)
    from ..lints import check_no_falsy_zero
    check_no_falsy_zero(prog, res, "R3", [S, U, "sigpyproc.block", "sigpyproc.timeseries"],
                        "axis=0 would select the whole-array reduction instead of the per-lane one")
    # ---- R1 (cont.) the scale estimators equal their textbook definitions (sign- and shift-equivariance are properties of
    # those definitions: symmetric gap weights i(n-i), pairwise distances, quartile difference) -----------------------------
    for est in ("_scale_iqr", "_scale_gapper_1d", "_scale_qn_1d", "_scale_sn_1d", "_scale_diffcov_1d"):
        fe = prog.func(S, est)
        v_, why_ = kernelspec.compare(fe, est)
        if v_ == "incomparable":
            raise AnalysisError(f"{est} cannot be compared with its reference definition: {why_[0]}")
        (res.ok if v_ == "same" else res.bad)("R1", fe, fe.node, ("; ".join(why_))[:600], construct=est, key=f"estimator:{est}")
    # ---- R5 sibling symmetry inside the double-sided estimator ------------------------------------------------------
    check_doublemad_symmetry(prog, res, "R5")

    # ---- R4 keepdims re-expansion -------------------------------------------------------------------------------
    from ..pathcond import holds, path_conditions
    from ..normalform import canon
    fes = flow_of(es)
    pce = path_conditions(fes)
    exps = [c for c in calls_in_body(es.node) if dotted(c.func) == "np.expand_dims"]
    seen_none = seen_axis = False
    ok = bool(exps)
    for c in exps:
        ax = next((k.value for k in c.keywords if k.arg == "axis"), c.args[1] if len(c.args) > 1 else None)
        arr = c.args[0] if c.args else None
        if isinstance(ax, ast.Name) and ax.id not in es.params:
            ds_ = fes.reaching(ax.id, fes.cfg.node_for(c))     # `axes = ... if axis is None else axis` held in a local
            if len(ds_) == 1 and ds_[0].kind == "assign" and ds_[0].value is not None:
                ax = ds_[0].value
        if ax is None or arr is None or holds(pce, c, "keepdims") is None:
            ok = False
        elif canon(ax) == canon("tuple(range(data.ndim)) if axis is None else axis"):
            seen_none = seen_axis = True
        elif holds(pce, c, "axis is None") is not None:
            seen_none = True
            ok = ok and canon(ax) == canon("tuple(range(data.ndim))")
        elif holds(pce, c, "axis is not None") is not None:
            seen_axis = True
            ok = ok and canon(ax) == canon("axis")
        else:
            ok = False
    calls_impl = [c for c in calls_in_body(es.node) if dotted(c.func) == impl_local and [norm(a) for a in c.args] == ["data", "axis"]]
    ok = ok and seen_none and seen_axis and len(calls_impl) == 1
    (res.ok if ok else res.bad)("R4", es, es.node, "keepdims re-inserts exactly the reduced axes (all axes for axis=None)" if ok else
                                "estimate_scale: keepdims does not re-expand the axes that were reduced", construct="keepdims", key="scale:keepdims")
    res.floor("R1", 3)
    res.floor("R2", 2)
    res.floor("R3", 9)
    res.floor("R4", 2)
    res.floor("R5", 3)


def check_doublemad_symmetry(prog: Program, res: Result, rule: str) -> None:
    """In _scale_doublemad every statement defining a *_left quantity must have a *_right twin that is its mirror image
    (left <-> right, <= <-> >=); the final select gives each side its own MAD and a sample on the median a value symmetric in the sides.  Shared with C16 (method 'mad')."""
    f = prog.func(S, "_scale_doublemad")
    defs: dict[str, list[str]] = {}
    for st in body_walk(f.node):
        if isinstance(st, ast.Assign) and len(st.targets) == 1 and isinstance(st.targets[0], ast.Name):
            defs.setdefault(st.targets[0].id, []).append(norm(st.value))

    def mirror(txt: str) -> str:
        return txt.replace("left", "\0").replace("right", "left").replace("\0", "right").replace("<=", "\1").replace(">=", "<=").replace("\1", ">=")
    lefts = sorted(k for k in defs if "left" in k)
    if len(lefts) < 2:
        raise AnalysisError("_scale_doublemad: no *_left quantities found")
    for k in lefts:
        kr = mirror(k)
        key = f"doublemad:mirror:{k}"
        if kr not in defs or len(defs[kr]) != len(defs[k]):
            res.bad(rule, f, f.node, f"`{k}` has no matching `{kr}` definition(s)", construct=k, key=key)
            continue
        bad = [(a, b) for a, b in zip(defs[k], defs[kr]) if mirror(a) != b]
        if bad:
            res.bad(rule, f, f.node, f"`{kr}` is not the mirror image of `{k}`: `{bad[0][1][:110]}` vs expected `{mirror(bad[0][0])[:110]}` - one side of the "
                    f"double MAD is computed from the other side's deviations", construct=k, key=key)
        else:
            res.ok(rule, f, f.node, f"`{kr}` mirrors `{k}` ({len(defs[k])} definition(s))", construct=k, key=key)
    # the final selection, as a map from the three regions (below / on / above the median) to a value
    rets = [s for s in body_walk(f.node) if isinstance(s, ast.Return)]
    flow = flow_of(f)
    from ..poly import PolyEnv

    def decide(c: ast.AST, region: str) -> bool | None:
        if not (isinstance(c, ast.Compare) and len(c.ops) == 1):
            return None
        a, b, op = norm(c.left), norm(c.comparators[0]), type(c.ops[0])
        if (a, b) == ("loc", "data"):
            a, b, op = b, a, {ast.Lt: ast.Gt, ast.Gt: ast.Lt, ast.LtE: ast.GtE, ast.GtE: ast.LtE}.get(op, op)
        if (a, b) != ("data", "loc"):
            return None
        table = {ast.Lt: "<", ast.LtE: "<=", ast.Gt: ">", ast.GtE: ">=", ast.Eq: "=", ast.NotEq: "<>"}
        return region in table[op] if op in table else None

    def select(e: ast.AST, region: str, depth: int = 0) -> ast.AST | None:
        if isinstance(e, ast.Name) and depth < 6:
            ds = [d for d in flow.reaching(e.id, flow.cfg.node_for(rets[0])) if d.kind == "assign"]
            if len(ds) == 1 and isinstance(ds[0].value, ast.Call) and dotted(ds[0].value.func) == "np.where" and ("left" not in e.id and "right" not in e.id):
                return select(ds[0].value, region, depth + 1)
        if isinstance(e, ast.Call) and dotted(e.func) == "np.where" and len(e.args) == 3:
            t = decide(e.args[0], region)
            return None if t is None else select(e.args[1] if t else e.args[2], region, depth + 1)
        return e

    def swap(e: ast.AST) -> ast.AST:
        e = ast.parse(norm(e), mode="eval").body
        for n in ast.walk(e):
            if isinstance(n, ast.Name):
                n.id = mirror(n.id)
        return e

    def value(e: ast.AST):
        # one level of local definitions (`mad_both = 0.5 * (mad_left + mad_right)`), the sides themselves stay symbolic
        ex = flow.expand(e, flow.cfg.node_for(rets[0]), stop={k for k in defs if "left" in k or "right" in k})
        return PolyEnv().poly(ex)
    why = ""
    if len(rets) != 1 or rets[0].value is None:
        why = "no single result"
    else:
        lt, eq, gt = (select(rets[0].value, r) for r in "<=>")
        if lt is None or eq is None or gt is None:
            why = "the final selection is not a choice by the side of the median (data < loc / data > loc)"
        elif not (isinstance(lt, ast.Name) and "left" in lt.id and lt.id in defs):
            why = f"samples below the median are not scaled by the left-side MAD (`{norm(lt)}`)"
        elif norm(gt) != mirror(norm(lt)):
            why = f"samples above the median are scaled by `{norm(gt)}`, expected the mirror image `{mirror(norm(lt))}`"
        elif not (value(eq) - value(swap(eq))).is_zero():
            why = (f"a sample equal to the median is scaled by `{norm(eq)}`, which belongs to one side: negating the data swaps the sides, so "
                   f"scale(-x) differs from scale(x) (and z(-x) from -z(x)) at that sample")
    (res.ok if not why else res.bad)(rule, f, rets[0] if rets else f.node, "each sample is scaled by the MAD of its own side of the median; a sample on the "
                                     "median by a value that is symmetric in the two sides" if not why else why, key="doublemad:select", construct="select")


_FLOAT_FUNCS = {"np.mean", "np.median", "np.std", "np.var", "np.sqrt", "np.nanmean", "np.nanmedian", "np.nanstd", "np.percentile", "np.quantile",
                "np.nanpercentile", "float", "np.float64", "np.float32", "np.average", "np.true_divide", "np.divide"}
_INT_FUNCS = {"len", "int", "bool", "np.count_nonzero", "np.argmax", "np.argmin", "np.searchsorted", "round"}
_SAME_KIND_FUNCS = {"np.abs", "np.absolute", "np.partition", "np.sort", "np.max", "np.min", "np.sum", "np.ravel", "np.diff", "np.asarray", "np.asanyarray",
                    "np.nanmax", "np.nanmin", "np.nansum", "np.subtract", "np.add", "np.multiply", "np.where", "abs", "max", "min", "sum", "sorted"}
_SAME_KIND_METHODS = {"min", "max", "sum", "ravel", "flatten", "copy", "cumsum", "take", "squeeze", "item"}


def _result_kind(flow, e: ast.AST, at: int, float_names: set[str], depth: int = 0) -> str | None:
    """'float' / 'int' when the numeric kind of `e` is evident from the source, else None."""
    if depth > 12 or e is None:
        return None
    rk = lambda x: _result_kind(flow, x, at, float_names, depth + 1)  # noqa: E731
    if isinstance(e, ast.Constant):
        return "float" if isinstance(e.value, float) else "int" if isinstance(e.value, (bool, int)) else None
    if isinstance(e, ast.Compare) or (isinstance(e, ast.UnaryOp) and isinstance(e.op, ast.Not)):
        return "int"
    if isinstance(e, ast.UnaryOp):
        return rk(e.operand)
    if isinstance(e, ast.BinOp):
        if isinstance(e.op, ast.Div):
            return "float"
        a, b = rk(e.left), rk(e.right)
        if "float" in (a, b):
            return "float"
        return "int" if a == b == "int" else None
    if isinstance(e, ast.IfExp):
        a, b = rk(e.body), rk(e.orelse)
        return a if a == b else ("mixed" if a and b else None)
    if isinstance(e, ast.Subscript):
        return rk(e.value)
    if isinstance(e, ast.Name):
        if e.id in float_names:
            return "float"
        ds = [d for d in flow.reaching(e.id, at) if d.kind == "assign" and d.value is not None]
        if not ds or len(ds) != len(flow.reaching(e.id, at)):
            return None
        kinds = {_result_kind(flow, d.value, d.node, float_names, depth + 1) for d in ds}
        return kinds.pop() if len(kinds) == 1 else None
    if isinstance(e, ast.Call):
        d = dotted(e.func)
        if d in _FLOAT_FUNCS:
            return "float"
        if d in _INT_FUNCS:
            return "int"
        if d in _SAME_KIND_FUNCS and e.args:
            ks = [rk(a) for a in (e.args[1:3] if d == "np.where" else e.args[:1])]
            return "float" if "float" in ks and None not in ks else ks[0] if len(set(ks)) == 1 else None
        if isinstance(e.func, ast.Attribute) and e.func.attr in _SAME_KIND_METHODS:
            return rk(e.func.value)
        if isinstance(e.func, ast.Attribute) and e.func.attr in ("mean", "std", "var"):
            return "float"
    return None


def _lane_result_kind(prog: Program, res: Result, one_d: FuncInfo, method: str) -> None:
    """np.apply_along_axis allocates its output with the dtype of the FIRST lane's result: a 1-D estimator that returns an
    integer on some path (a literal 0 for a constant lane, a count) makes every other lane be truncated to that dtype
    whenever such a lane comes first - the result for one lane then depends on another lane."""
    flow = flow_of(one_d)
    floats = set(one_d.positional_params[:1])
    key = f"lane:{method}:kind"
    rets = [s for s in body_walk(one_d.node) if isinstance(s, ast.Return) and s.value is not None]
    kinds = [(r, _result_kind(flow, r.value, flow.cfg.node_for(r), floats)) for r in rets]
    bad = [r for r, k in kinds if k in ("int", "mixed")]
    if bad:
        res.bad("R3", one_d, bad[0], f"{method}: {one_d.name} returns an integer-valued result (`{norm(bad[0].value)[:60]}`) on some path while it is applied "
                "lane by lane with np.apply_along_axis, whose output buffer takes the dtype of the first lane's result: the other lanes are truncated "
                "to integers whenever such a lane comes first", key=key)
    else:
        typed = sum(1 for _, k in kinds if k == "float")
        res.ok("R3", one_d, one_d.node, f"{method}: {one_d.name} returns a float on {typed} of {len(kinds)} return path(s) (none is integer-valued)", key=key,
               construct=one_d.name)


def _lane_rule(prog: Program, res: Result, f: FuncInfo, method: str) -> None:
    key = f"lane:{method}"
    params = f.positional_params
    if len(params) < 2 or params[1] != "axis":
        res.bad("R3", f, f.node, f"{f.name} does not take (data, axis)", construct=f.name, key=key)
        return
    data = params[0]
    # (a) pure delegation
    rets = [s for s in body_walk(f.node) if isinstance(s, ast.Return) and s.value is not None]
    for r in rets:
        v = r.value
        if isinstance(v, ast.Call) and dotted(v.func) == "apply_along_axes" and len(v.args) == 3 and norm(v.args[1]) == data and norm(v.args[2]) == "axis":
            one_d = dotted(v.args[0])
            if one_d and prog.has_func(S, one_d) and len(prog.func(S, one_d).positional_params) == 1:
                # the 1-D estimator must not take an axis and the wrapper must not touch data positionally before
                pos = _positional_uses(f, data)
                if pos:
                    res.bad("R3", f, pos[0], f"{f.name} indexes its input positionally (`{norm(pos[0])}`) before delegating", key=key)
                else:
                    res.ok("R3", f, r, f"{method}: delegates to apply_along_axes({one_d}, data, axis): per-lane / flattened by construction", key=key)
                    _lane_result_kind(prog, res, prog.func(S, one_d), method)
                return
    # (b0) a whole-array (cross-lane) condition may only guard element-wise, mask-selected updates
    for g in [n for n in body_walk(f.node) if isinstance(n, ast.If)]:
        t = g.test
        if isinstance(t, ast.Call) and dotted(t.func) in ("np.any", "np.all", "any", "all") and not any(k.arg == "axis" for k in t.keywords) and t.args:
            mask = norm(t.args[0])
            keyg = f"lane:{method}:guard"
            if dotted(t.func) in ("np.all", "all"):
                res.bad("R3", f, g, f"{method}: a lane-wise correction is applied only when the condition holds for ALL lanes (`{norm(t)}`): a lane that "
                        f"needs it is left uncorrected whenever another lane does not, so the result for one lane depends on the other lanes", key=keyg)
                return
            for st in g.body:
                if isinstance(st, ast.Assign) and len(st.targets) == 1 and isinstance(st.targets[0], ast.Name):
                    v = st.value
                    tn = st.targets[0].id
                    uses_mask = isinstance(v, ast.Call) and dotted(v.func) == "np.where" and len(v.args) == 3 and norm(v.args[0]) == mask and norm(v.args[2]) == tn
                    feeds = any(isinstance(r.value, ast.AST) and tn in {n.id for n in ast.walk(r.value) if isinstance(n, ast.Name)}
                                for r in body_walk(f.node) if isinstance(r, ast.Return) and r.value is not None)
                    if feeds and not uses_mask:
                        # helper values computed inside the guard are fine if they only flow into a masked select
                        later = [s2 for s2 in g.body if isinstance(s2, ast.Assign) and isinstance(s2.value, ast.Call) and dotted(s2.value.func) == "np.where"
                                 and tn in norm(s2.value.args[1] if len(s2.value.args) > 1 else s2.value)]
                        if not later:
                            res.bad("R3", f, st, f"{method}: under the cross-lane condition `{norm(t)}` the per-lane result `{tn}` is replaced wholesale "
                                    f"(`{norm(st)[:80]}`) instead of np.where({mask}, new, {tn}): lanes that did not need the correction are changed too", key=keyg)
                            return
            res.ok("R3", f, g, f"{method}: the cross-lane test `{norm(t)}` only guards mask-selected (np.where) updates", key=keyg)
    # (b) axis-parameterised reductions only
    pos = _positional_uses(f, data)
    if pos:
        res.bad("R3", f, pos[0], f"{method}: {f.name} forms lanes by positional indexing `{norm(pos[0])}` (always the last axis) instead of the "
                f"`axis` argument: axis=0 / axis=None do not equal the 1-D estimator applied per lane / to the flattened data", key=key)
        return
    reducers = [c for c in calls_in_body(f.node) if dotted(c.func) in AXIS_REDUCERS]
    bad = []
    for c in reducers:
        ax = [k.value for k in c.keywords if k.arg == "axis"]
        d = dotted(c.func)
        if d == "np.diff":
            # np.diff(percentiles, axis=0) on the stacked-percentile axis is not a lane reduction of the data
            continue
        if not ax or norm(ax[0]) != "axis":
            bad.append(c)
    if not reducers:
        res.bad("R3", f, f.node, f"{method}: {f.name} neither delegates to apply_along_axes nor reduces with axis=axis", construct=f.name, key=key)
    elif bad:
        res.bad("R3", f, bad[0], f"{method}: reduction `{norm(bad[0])[:70]}` does not use axis=axis", key=key)
    else:
        res.ok("R3", f, f.node, f"{method}: lanes are formed only by {len(reducers)} reductions with axis=axis", construct=f.name, key=key)


def _positional_uses(f: FuncInfo, data: str) -> list[ast.AST]:
    """Subscripts of the input (or a converted copy with the same name) that insert/select axes positionally."""
    out = []
    for n in body_walk(f.node):
        if isinstance(n, ast.Subscript) and isinstance(n.value, ast.Name) and n.value.id == data:
            s = n.slice
            elts = s.elts if isinstance(s, ast.Tuple) else [s]
            if any(isinstance(e, ast.Constant) and e.value in (None, Ellipsis) for e in elts) or \
                    any(isinstance(e, ast.Attribute) and norm(e) == "np.newaxis" for e in elts) or any(isinstance(e, ast.Slice) for e in elts):
                out.append(n)
    return out


SF = "sigpyproc/core/stats.py"
MUTANTS = [
    {"id": "c15-revert-F35-mad", "file": "sigpyproc/core/stats.py", "expect": "C15.R3",
     "old": "    return np.squeeze(mad, axis=axis)\n", "new": "    return np.squeeze(mad)\n"},
    {"id": "c15-revert-F35-iqr", "file": "sigpyproc/core/stats.py", "expect": "C15.R3",
     "old": "    return np.squeeze((percentiles[1] - percentiles[0]) / norm, axis=axis)\n", "new": "    return np.squeeze(np.diff(percentiles, axis=0) / norm)\n"},
    {"id": "c15-qn-constant-lane-int", "file": "sigpyproc/core/stats.py", "expect": "C15.R3",
     "old": "    n = len(data)\n    h = n // 2 + 1\n    k = h * (h - 1) // 2\n    diffs = np.abs(data[:, None] - data)\n",
     "new": "    n = len(data)\n    if data.min() == data.max():\n        return 0\n    h = n // 2 + 1\n    k = h * (h - 1) // 2\n    diffs = np.abs(data[:, None] - data)\n"},
    {"id": "c15-revert-F19", "file": SF, "expect": "C15.R3",
     "old": "    data = np.asanyarray(data, dtype=np.float64)\n    return apply_along_axes(_scale_sn_1d, data, axis)\n",
     "new": "    norm = 1.1926\n    data = np.asanyarray(data, dtype=np.float64)\n    diffs = np.abs(data[..., None] - data[..., None, :])\n    median_diffs = np.median(diffs, axis=-1)\n    return norm * np.median(median_diffs, axis=axis)\n"},
    {"id": "c15-no-zero-guard", "file": SF, "expect": "C15.R1",
     "old": "    zero_scales = np.isclose(scale, 0)\n    if np.any(zero_scales):\n        scale = np.where(zero_scales, 1, scale)\n", "new": ""},
    {"id": "c15-guard-replaces-with-zero", "file": SF, "expect": "C15.R1",
     "old": "        scale = np.where(zero_scales, 1, scale)", "new": "        scale = np.where(zero_scales, 0, scale)"},
    {"id": "c15-guard-after-division", "file": SF, "expect": "C15.R1",
     "old": "    zero_scales = np.isclose(scale, 0)\n    if np.any(zero_scales):\n        scale = np.where(zero_scales, 1, scale)\n\n    zscores = np.subtract(data, loc, dtype=np.float32)\n    np.divide(zscores, scale, out=zscores)\n",
     "new": "    zscores = np.subtract(data, loc, dtype=np.float32)\n    np.divide(zscores, scale, out=zscores)\n    zero_scales = np.isclose(scale, 0)\n    if np.any(zero_scales):\n        scale = np.where(zero_scales, 1, scale)\n"},
    {"id": "c15-mad-axis-none", "file": SF, "expect": "C15.R3",
     "old": "    loc = np.median(data, axis=axis, keepdims=True)\n    mad = np.median(np.abs(data - loc), axis=axis, keepdims=True) / norm", "new": "    loc = np.median(data, keepdims=True)\n    mad = np.median(np.abs(data - loc), axis=axis, keepdims=True) / norm"},
    {"id": "c15-method-missing", "file": SF, "expect": "C15.R2",
     "old": "        \"gapper\": _scale_gapper,\n", "new": ""},
    {"id": "c15-keepdims-axis0", "file": SF, "expect": "C15.R4",
     "old": "            result = np.expand_dims(result, axis=axis)", "new": "            result = np.expand_dims(result, axis=0)"},
    {"id": "c15-apply-axes-no-flatten", "file": "sigpyproc/utils.py", "expect": "C15.R3",
     "old": "    if axis is None:\n        return func(data.ravel())\n", "new": "    if axis is None:\n        axis = 0\n"},
    {"id": "c15-loc-ignores-axis", "file": SF, "expect": "C15.R2",
     "old": "        return np.median(data, axis=axis, keepdims=keepdims)", "new": "        return np.median(data, keepdims=keepdims)"},
    {"id": "c15-zscore-scale-other-axis", "file": SF, "expect": "C15.R4",
     "old": "        else estimate_scale(data, scale_method, axis, keepdims=True)", "new": "        else estimate_scale(data, scale_method, None, keepdims=True)"},
]
MUTANTS += [
    {"id": "c15-doublemad-right-from-left", "file": SF, "expect": "C15.R5",
     "old": "        np.nanmean(data_right, axis=axis, keepdims=True) / norm_aad,", "new": "        np.nanmean(data_left, axis=axis, keepdims=True) / norm_aad,"},
    {"id": "c15-doublemad-select-swapped", "file": SF, "expect": "C15.R5",
     "old": "    return np.where(data < loc, mad_left, np.where(data > loc, mad_right, mad_both))", "new": "    return np.where(data < loc, mad_right, np.where(data > loc, mad_left, mad_both))"},
    {"id": "c15-revert-F30", "file": "sigpyproc/core/stats.py", "expect": "C15.R5",
     "old": "    return np.where(data < loc, mad_left, np.where(data > loc, mad_right, mad_both))", "new": "    return np.where(data < loc, mad_left, mad_right)"},
    {"id": "c15-median-sample-left", "file": "sigpyproc/core/stats.py", "expect": "C15.R5",
     "old": "    return np.where(data < loc, mad_left, np.where(data > loc, mad_right, mad_both))", "new": "    return np.where(data <= loc, mad_left, mad_right)"},
    {"id": "c15-mad-fallback-all-lanes", "file": SF, "expect": "C15.R3",
     "old": "    is_zero_mad = np.isclose(mad, 0)\n    if np.any(is_zero_mad):\n        aad = np.mean(np.abs(data - loc), axis=axis, keepdims=True) / norm_aad\n        mad = np.where(is_zero_mad, aad, mad)\n",
     "new": "    if np.all(np.isclose(mad, 0)):\n        mad = np.mean(np.abs(data - loc), axis=axis, keepdims=True) / norm_aad\n"},
    {"id": "c15-mad-fallback-wholesale", "file": SF, "expect": "C15.R3",
     "old": "        mad = np.where(is_zero_mad, aad, mad)\n", "new": "        mad = aad\n"},
]
MUTANTS += [
    {"id": "c15-gapper-weights-off-by-one", "file": "sigpyproc/core/stats.py", "expect": "C15.R1",
     "old": "    weights = np.arange(1, n) * np.arange(n - 1, 0, -1)", "new": "    idx = np.arange(n - 1)\n    weights = (idx + 1) * (n - idx)"},
    {"id": "c15-iqr-degenerate-guard", "file": "sigpyproc/core/stats.py", "expect": "C15.R1",
     "old": "    return np.squeeze((percentiles[1] - percentiles[0]) / norm, axis=axis)", "new": "    iqr = np.where(np.isclose(percentiles[1], percentiles[0]), 0.0, percentiles[1] - percentiles[0])\n    return np.squeeze(iqr / norm, axis=axis)"},
    {"id": "c15-normalise-axis-falsy", "file": "sigpyproc/block.py", "expect": "C15.R3",
     "old": "        zscore_re = stats.estimate_zscore(self.data, loc_method, scale_method, axis)", "new": "        axis = axis % self.data.ndim if axis else None\n        zscore_re = stats.estimate_zscore(self.data, loc_method, scale_method, axis)"},
]
TWINS = [
    {"id": "c15-twin-gapper-weights-index", "file": "sigpyproc/core/stats.py",
     "old": "    weights = np.arange(1, n) * np.arange(n - 1, 0, -1)", "new": "    idx = np.arange(1, n)\n    weights = idx * (n - idx)"},
    {"id": "c15-twin-normalise-axis-is-none", "file": "sigpyproc/block.py",
     "old": "        zscore_re = stats.estimate_zscore(self.data, loc_method, scale_method, axis)", "new": "        if axis is not None and axis < 0:\n            axis = axis % self.data.ndim\n        zscore_re = stats.estimate_zscore(self.data, loc_method, scale_method, axis)"},
    {"id": "c15-twin-select-max-at-median", "file": "sigpyproc/core/stats.py",
     "old": "    mad_both = 0.5 * (mad_left + mad_right)\n", "new": "    mad_both = (mad_right + mad_left) / 2\n"},
    {"id": "c15-twin-select-order", "file": "sigpyproc/core/stats.py",
     "old": "    return np.where(data < loc, mad_left, np.where(data > loc, mad_right, mad_both))",
     "new": "    return np.where(data > loc, mad_right, np.where(data < loc, mad_left, mad_both))"},
    {"id": "c15-twin-qn-constant-lane-float", "file": "sigpyproc/core/stats.py",
     "old": "    n = len(data)\n    h = n // 2 + 1\n    k = h * (h - 1) // 2\n    diffs = np.abs(data[:, None] - data)\n",
     "new": "    n = len(data)\n    if data.min() == data.max():\n        return 0.0\n    h = n // 2 + 1\n    k = h * (h - 1) // 2\n    diffs = np.abs(data[:, None] - data)\n"},
    {"id": "c15-twin-mad-unconditional-where", "file": SF,
     "old": "    if np.any(is_zero_mad):\n        aad = np.mean(np.abs(data - loc), axis=axis, keepdims=True) / norm_aad\n        mad = np.where(is_zero_mad, aad, mad)\n",
     "new": "    aad = np.mean(np.abs(data - loc), axis=axis, keepdims=True) / norm_aad\n    mad = np.where(is_zero_mad, aad, mad)\n"},
]
