"""C13 - matched-filter S/N (length-carrying and index-agreement clauses only)."""
from __future__ import annotations

import ast

from .. import kernelspec
from ..model import AnalysisError, Program, body_walk, calls_in_body, dotted, norm
from ..report import Result, depends
from ..dataflow import flow_of
from ..normalform import canon, normal_form
from ..poly import Poly, PolyEnv
from .c12 import check_irfft

TITLE = "Matched-filter S/N is the normalised template correlation and its argmax"
LEVEL = "other"
TECHNIQUE = "static analysis: length-carrying rule, kernel-vs-reference comparison, index agreement, dispatch exhaustiveness"
EXPLANATION = (
    "Narrow claim - structural clauses only: (R1) convolve_templates inverts the product spectrum to an explicit length "
    "(shared rule with C12), data, templates and inverse all have the length of the data - so the circular correlation has "
    "the period of the data, not of a padded copy - and the function equals its reference "
    "definition (reference bin rolled to 0, time reversal, zero-mean/unit-norm template over the data length, "
    "spectra multiplied), with normalize_template and circular_pad_goodsize equal to theirs; (R2) the "
    "reported template, peak bin and S/N index the same bank and response matrix that produced the maximum, the kernels and "
    "reference bins are taken from the bank in the same order, and the data convolved are the standardised z-scores, estimate_zscore itself "
    "being equal to its definition (C15.R1 re-evaluated); (R3) "
    "every template kind of MatchFilterMethods has a generator, and a template's reference bin is validated to lie inside "
    "it. Not decided: response values, invariance under offset/scale, recovery of a boxcar - numeric clauses. "
    "Since F31, R1 also requires the data, the templates and the inverse transform to have the length of the data (the period of the circular correlation)."
)
K = "sigpyproc.core.kernels"
F = "sigpyproc.core.filters"


def run(prog: Program, res: Result, tier: str) -> None:
    prog.consulted.update({K, F, "sigpyproc.core.custom_types"})
    n = check_irfft(prog, res, "R1", only={"convolve_templates"})
    if n < 1:
        raise AnalysisError("convolve_templates has no inverse FFT")
    for name in ("convolve_templates", "normalize_template", "circular_pad_goodsize"):
        fn = prog.func(K, name)
        verdict, why = kernelspec.compare(fn)
        if verdict == "incomparable":
            raise AnalysisError(f"kernel {name} cannot be compared with its reference definition: {why[0]}")
        (res.ok if verdict == "same" else res.bad)("R1", fn, fn.node, ("; ".join(why))[:500], construct=name, key=name)
    # ---- R1 (cont.) the period of the circular correlation is the length of the data ------------------------------------
    # A circular correlation evaluated on a longer, wrapped copy of the data (period L > n) is not the correlation over the
    # n samples: the head is counted twice and the template is normalised over L (F31).
    ct = prog.func(K, "convolve_templates")
    fct = flow_of(ct)
    dparam = ct.positional_params[0]
    fwd = [c for c in calls_in_body(ct.node) if dotted(c.func) in ("np.fft.rfft", "nb_rfft", "rfft")]
    inv = [c for c in calls_in_body(ct.node) if dotted(c.func) in ("np.fft.irfft", "nb_irfft", "irfft")]
    lens = {canon(f"len({dparam})"), canon(f"{dparam}.size"), canon(f"{dparam}.shape[0]")}
    why_p = ""
    data_fwd = [c for c in fwd if c.args and canon(fct.expand(c.args[0], fct.cfg.node_for(c))) == canon(dparam)]
    if len(data_fwd) != 1 or len(data_fwd[0].args) > 1 and canon(fct.expand(data_fwd[0].args[1], fct.cfg.node_for(data_fwd[0]))) not in lens:
        why_p = "the data are not transformed at their own length (a padded or wrapped copy changes the period of the circular correlation)"
    else:
        for c in inv:
            got = canon(fct.expand(c.args[1], fct.cfg.node_for(c))) if len(c.args) > 1 else "(none)"
            if got not in lens:
                why_p = f"the product spectrum is inverted to length `{got}`, not to the length of the data"
        for c in fwd:
            if c is data_fwd[0]:
                continue
            tx = canon(fct.expand(c.args[0], fct.cfg.node_for(c), stop={n_.id for l_ in ast.walk(ct.node) if isinstance(l_, ast.For)
                                                                          for n_ in ast.walk(l_.target) if isinstance(n_, ast.Name)}))
            if "circular_pad_goodsize" in tx or "good_size" in tx:
                why_p = "the template is laid out on a padded length, not on the length of the data"
    (res.ok if not why_p else res.bad)("R1", ct, data_fwd[0] if data_fwd else ct.node, "data, templates and the inverse transform all have the length of the data: "
                                       "the circular correlation has the period of the data" if not why_p else why_p,
                                       construct="period", key="convolve_templates:period")
    # ---- R2 index agreement -------------------------------------------------------------------
    cp = prog.func(F, "MatchedFilter._compute")
    nfc = normal_form(cp)

    def obj(text: str) -> str | None:
        want = canon(text)
        hits = [e.target for e in nfc.effects if e.kind == "set" and e.target.startswith("$") and e.text() == want]
        return hits[0] if len(hits) == 1 else None

    def value_of(attr: str) -> str | None:
        hits = nfc.sets(attr)
        return hits[0].text() if len(hits) == 1 else None

    o_data = obj("typed.List([temp.data for temp in self.temp_bank])")
    o_ref = obj("typed.List([temp.ref_bin for temp in self.temp_bank])")
    conv = f"kernels.convolve_templates(self.zscores.data, {o_data}, {o_ref})"
    peak = f"np.unravel_index({conv}.argmax(), {conv}.shape)"
    # the flat argmax of a C-ordered (ntemplates, nbins) array: unravel_index, or divmod by the row length
    flat = f"int({conv}.argmax())"
    idx_forms = {(f"{peak}[0]", f"{peak}[1]"),
                 (f"FloorDiv({flat}, {conv}.shape[1])", f"Mod({flat}, {conv}.shape[1])"),
                 (f"FloorDiv({conv}.argmax(), {conv}.shape[1])", f"Mod({conv}.argmax(), {conv}.shape[1])")}
    checks = [
        ("kernels and reference bins are listed from the same bank in the same order", o_data is not None and o_ref is not None),
        ("the standardised data (z-scores) are convolved with (kernels, ref_bins)", value_of("self._convs") == conv),
        ("(template, bin) = unravel_index(argmax of the response matrix)",
         (value_of("self._itemp"), value_of("self._peak_bin")) in idx_forms),
        ("best template = bank[itemp]", value_of("self._best_temp") in {f"self.temp_bank[{i_}]" for i_, _ in idx_forms} | {"self.temp_bank[self._itemp]"}),
        ("S/N = response[itemp, peak_bin]", value_of("self._best_snr") in {f"{conv}[{i_}, {j_}]" for i_, j_ in idx_forms} | {"self._convs[self._itemp, self._peak_bin]"}),
    ]
    for what, ok in checks:
        (res.ok if ok else res.bad)("R2", cp, cp.node, what if ok else f"MatchedFilter._compute no longer satisfies: {what}", construct=what, key=what[:50])
    init = prog.func(F, "MatchedFilter.__init__")
    nfi = normal_form(init)
    zs = [e for e in nfi.sets("self._zscores") if e.text() in (canon("estimate_zscore(self.data, loc_method, scale_method)"),
                                                              canon("estimate_zscore(np.asarray(data, dtype=np.float32), loc_method, scale_method)"))]
    setup = nfi.exprs("self._setup_templates(nbins_max, spacing_factor)")
    comp = nfi.exprs("self._compute()")
    ok = len(zs) == 1 and len(setup) == 1 and len(comp) == 1 and nfi.before(zs[0], comp[0]) and nfi.before(setup[0], comp[0])
    (res.ok if ok else res.bad)("R2", init, init.node, "data are standardised, the bank is built, then responses are computed" if ok else
                                "MatchedFilter.__init__ no longer standardises the data before computing responses", construct="__init__", key="init")
    props = {"peak_bin": "int(self._peak_bin)", "best_temp": "self._best_temp", "snr": "self._best_snr", "convs": "self._convs"}
    mf = prog.cls(F, "MatchedFilter")
    for p, w in props.items():
        m = mf.methods.get(p)
        rets = [e.text() for e in normal_form(m).returns()] if m else []
        ok = rets == [canon(w)]
        (res.ok if ok else res.bad)("R2", m, m.node if m else mf.node, f"{p} reports {w}" if ok else f"property {p} no longer reports {w}", construct=p, key=f"prop:{p}")
    # ---- R3 exhaustiveness ---------------------------------------------------------------------------
    kinds_node = prog.const("sigpyproc.core.custom_types", "MatchFilterMethods")
    kinds = [e.value for e in kinds_node.slice.elts] if isinstance(kinds_node, ast.Subscript) and isinstance(kinds_node.slice, ast.Tuple) else None
    if not kinds:
        raise AnalysisError("MatchFilterMethods literal not found")
    st = prog.func(F, "MatchedFilter._setup_templates")
    ga = [c for c in calls_in_body(st.node) if dotted(c.func) == "getattr" and len(c.args) == 2 and isinstance(c.args[1], ast.JoinedStr)]
    tmpl = prog.cls(F, "Template")
    ok = len(ga) == 1 and norm(ga[0].args[0]) == "Template" and norm(ga[0].args[1]) == "f'gen_{self.temp_kind}'"
    missing = [k for k in kinds if f"gen_{k}" not in tmpl.methods or not tmpl.methods[f"gen_{k}"].is_classmethod]
    if ok and not missing:
        res.ok("R3", st, ga[0], f"gen_{{kind}} exists as a classmethod for every kind in {kinds}", key="dispatch")
    else:
        res.bad("R3", st, st.node, f"template dispatch cannot resolve kinds {missing or kinds}", construct="dispatch", key="dispatch")
    # a template as long as the data is legal (the circular correlation over len(data) is defined for it): the bank is refused only
    # for a template strictly longer than the data, and every template that passes is appended
    nfs = normal_form(st)
    raises_in_loop = [e for e in nfs.raises() if any(c.startswith("L<") for c in e.ctx)]
    strict = bool(raises_in_loop) and all(any(c.startswith("if cmp[Lt](self.data.size, ") and c.endswith(".data.size)") for c in e.ctx) for e in raises_in_loop)
    appended = [e for e in nfs.effects if e.kind == "expr" and ".append(" in e.text() and any(c.startswith("L<") for c in e.ctx)]
    kept = bool(appended) and all(any(c.startswith("ifnot cmp[Lt](self.data.size, ") for c in e.ctx) and
                                  not any("self.data.size" in c and not c.startswith("ifnot cmp[Lt](self.data.size, ") for c in e.ctx) for e in appended)
    (res.ok if strict and kept else res.bad)("R3", st, st.node, "a template is refused only when it is strictly longer than the data; every other one joins the bank" if strict and kept else
                                             "_setup_templates no longer refuses exactly the templates that are longer than the data (a template as long as the data is legal: "
                                             "data of exactly the largest template's length would be rejected, or an over-long template accepted)", construct="template guard", key="template-guard")
    pi = tmpl.methods.get("__attrs_post_init__")
    ok = pi is not None and any(e.under("self.ref_bin >= self.data.size") for e in normal_form(pi).raises())
    (res.ok if ok else res.bad)("R3", pi, pi.node if pi else tmpl.node, "a reference bin outside the template raises ValueError" if ok else
                                "Template no longer validates ref_bin < size", construct="ref_bin", key="ref_bin")
    tparams = [n for n in tmpl.attrs_fields]
    for k in ("boxcar", "gaussian", "lorentzian"):
        g = tmpl.methods.get(f"gen_{k}")
        ok = False
        if g is not None:
            fl = flow_of(g)
            rets = [s_ for s_ in body_walk(g.node) if isinstance(s_, ast.Return) and isinstance(s_.value, ast.Call) and dotted(s_.value.func) in ("cls", "Template")]
            ok = bool(rets)
            for r in rets:
                call = r.value
                bound = {n: a_ for n, a_ in zip(tparams, call.args)}
                bound.update({kw.arg: kw.value for kw in call.keywords})
                if "ref_bin" not in bound or "data" not in bound:
                    ok = False
                    continue
                at = fl.cfg.node_for(r)
                rb = fl.expand(bound["ref_bin"], at)
                data = fl.expand(bound["data"], at)
                if k == "boxcar":
                    ok = ok and PolyEnv().poly(rb) == Poly.const(0)
                    continue
                # symmetric support np.arange(-S, S + 1): the peak (x = 0) is element S = len(x) // 2
                supports = {norm(c) for c in ast.walk(data) if isinstance(c, ast.Call) and dotted(c.func) == "np.arange" and len(c.args) == 2
                            and PolyEnv().poly(c.args[1]) == Poly.const(1) - PolyEnv().poly(c.args[0])}
                centre = False
                if isinstance(rb, ast.BinOp) and isinstance(rb.op, ast.FloorDiv) and norm(rb.right) == "2" and isinstance(rb.left, ast.Call) and \
                        dotted(rb.left.func) == "len" and len(rb.left.args) == 1 and norm(rb.left.args[0]) in supports:
                    centre = True
                else:
                    for c in ast.walk(data):
                        if isinstance(c, ast.Call) and dotted(c.func) == "np.arange" and norm(c) in supports and \
                                PolyEnv().poly(rb) == -PolyEnv().poly(c.args[0]):
                            centre = True
                ok = ok and len(supports) == 1 and centre
        (res.ok if ok else res.bad)("R3", g, g.node if g else tmpl.node, f"gen_{k}: reference bin {'at the start' if k == 'boxcar' else 'at the peak (centre of a symmetric support)'}"
                                    if ok else f"gen_{k}: reference bin definition changed", construct=f"gen_{k}", key=f"gen:{k}")
    # ---- R1 (cont.) the standardisation the filter is fed with (shared with C15.R1) ------------------------------------
    depends(res, "R1", prog, tier, "C15", accept=lambda o: (o.key or "").startswith(("zscore:", "estimator:")),
            why="MatchedFilter correlates estimate_zscore(data, loc_method, scale_method): C15's rules for that function are re-evaluated here")
    res.floor("R1", 8)
    res.floor("R2", 10)
    res.floor("R3", 5)


KF = "sigpyproc/core/kernels.py"
FF = "sigpyproc/core/filters.py"
MUTANTS = [
    {"id": "c13-revert-F18b", "file": KF, "expect": "C13.R1",
     "old": "        convs[itemp, :] = np.fft.irfft(data_fft * np.fft.rfft(temp_norm), nbins)", "new": "        convs[itemp, :] = np.fft.irfft(data_fft * np.fft.rfft(temp_norm))[:nbins]"},
    {"id": "c13-revert-F31", "file": KF, "expect": "C13.R1",
     "old": "    data_fft = np.fft.rfft(data)\n    for itemp in range(ntemps):\n        temp_kernel = temp_bank[itemp]\n        temp_pad = np.zeros_like(data)\n",
     "new": "    data_pad = circular_pad_goodsize(data)\n    data_fft = np.fft.rfft(data_pad)\n    for itemp in range(ntemps):\n        temp_kernel = temp_bank[itemp]\n        temp_pad = np.zeros_like(data_pad)\n"},
    {"id": "c13-data-transformed-at-good-size", "file": KF, "expect": "C13.R1",
     "old": "    data_fft = np.fft.rfft(data)\n", "new": "    data_fft = np.fft.rfft(data, nb_fft_good_size(nbins, real=True))\n"},
    {"id": "c13-no-time-reverse", "file": KF, "expect": "C13.R1",
     "old": "        temp_pad = np.roll(temp_pad[::-1], 1)\n", "new": ""},
    {"id": "c13-roll-plus-ref", "file": KF, "expect": "C13.R1",
     "old": "        temp_pad = np.roll(temp_pad, -ref_bin[itemp])", "new": "        temp_pad = np.roll(temp_pad, ref_bin[itemp])"},
    {"id": "c13-norm-no-mean", "file": KF, "expect": "C13.R1",
     "old": "    arr_norm = arr - mean\n    norm = np.sqrt(np.sum(arr_norm**2))", "new": "    arr_norm = arr\n    norm = np.sqrt(np.sum(arr_norm**2))"},
    {"id": "c13-snr-wrong-index", "file": FF, "expect": "C13.R2",
     "old": "        self._best_snr = self._convs[self._itemp, self._peak_bin]", "new": "        self._best_snr = self._convs[self._peak_bin % self._convs.shape[0], self._itemp]"},
    {"id": "c13-raw-data-convolved", "file": FF, "expect": "C13.R2",
     "old": "            self.zscores.data,\n            temp_kernels,", "new": "            self.data,\n            temp_kernels,"},
    {"id": "c13-refbins-reversed", "file": FF, "expect": "C13.R2",
     "old": "        ref_bins = typed.List([temp.ref_bin for temp in self.temp_bank])", "new": "        ref_bins = typed.List([temp.ref_bin for temp in self.temp_bank[::-1]])"},
    {"id": "c13-gen-renamed", "file": FF, "expect": "C13.R3",
     "old": "    def gen_lorentzian(cls, width: float, extent: float = 3.5) -> Template:", "new": "    def gen_lorentz(cls, width: float, extent: float = 3.5) -> Template:"},
    {"id": "c13-pad-linear", "file": KF, "expect": "C13.R1",
     "old": "        result[i] = arr[i % n]", "new": "        result[i] = arr[min(i, n - 1)]"},
]
MUTANTS += [
    {"id": "c13-template-guard-ge", "file": "sigpyproc/core/filters.py", "expect": "C13.R3",
     "old": "            if temp.data.size > self.data.size:", "new": "            if temp.data.size >= self.data.size:"},
]
TWINS = [
    {"id": "c13-twin-template-guard-flipped", "file": "sigpyproc/core/filters.py",
     "old": "            if temp.data.size > self.data.size:", "new": "            if self.data.size < temp.data.size:"},
]
