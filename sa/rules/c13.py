"""C13 - matched-filter S/N (length-carrying and index-agreement clauses only)."""
from __future__ import annotations

import ast

from .. import kernelspec
from ..model import AnalysisError, Program, body_walk, calls_in_body, dotted, norm
from ..report import Result
from .c12 import check_irfft

TITLE = "Matched-filter S/N is the normalised template correlation and its argmax"
LEVEL = "other"
TECHNIQUE = "static analysis: length-carrying rule, kernel-vs-reference comparison, index agreement, dispatch exhaustiveness"
EXPLANATION = (
    "Narrow claim - structural clauses only: (R1) convolve_templates inverts the product spectrum to the padded length "
    "(shared rule with C12; without it odd good sizes fail or give a response on the wrong period) and equals its reference "
    "definition (circular pad to a good size, reference bin rolled to 0, time reversal, zero-mean/unit-norm template, "
    "spectra multiplied, first nbins kept), with normalize_template and circular_pad_goodsize equal to theirs; (R2) the "
    "reported template, peak bin and S/N index the same bank and response matrix that produced the maximum, the kernels and "
    "reference bins are taken from the bank in the same order, and the data convolved are the standardised z-scores; (R3) "
    "every template kind of MatchFilterMethods has a generator, and a template's reference bin is validated to lie inside "
    "it. Not decided: response values, invariance under offset/scale, recovery of a boxcar - numeric clauses."
)
K = "sigpyproc.core.kernels"
F = "sigpyproc.core.filters"


def run(prog: Program, res: Result, tier: str) -> None:
    prog.consulted.update({K, F, "sigpyproc.core.custom_types"})
    n = check_irfft(prog, res, "R1", only={"convolve_templates"})
    if n < 1:
        raise AnalysisError("convolve_templates has no inverse FFT")
    for name in ("convolve_templates", "normalize_template", "circular_pad_goodsize"):
        fn = prog.func(K, name)
        verdict, why = kernelspec.compare(fn)
        if verdict == "incomparable":
            raise AnalysisError(f"kernel {name} cannot be compared with its reference definition: {why[0]}")
        (res.ok if verdict == "same" else res.bad)("R1", fn, fn.node, ("; ".join(why))[:500], construct=name, key=name)
    # ---- R2 index agreement -------------------------------------------------------------------
    cp = prog.func(F, "MatchedFilter._compute")
    src = norm(cp.node)
    checks = [
        ("kernels and reference bins are listed from the same bank in the same order",
         "temp_kernels = typed.List([temp.data for temp in self.temp_bank])" in src and "ref_bins = typed.List([temp.ref_bin for temp in self.temp_bank])" in src),
        ("the standardised data (z-scores) are convolved with (kernels, ref_bins)",
         "self._convs = kernels.convolve_templates(self.zscores.data, temp_kernels, ref_bins)" in src),
        ("(template, bin) = unravel_index(argmax of the response matrix)",
         "self._itemp, self._peak_bin = np.unravel_index(self._convs.argmax(), self._convs.shape)" in src),
        ("best template = bank[itemp]", "self._best_temp = self.temp_bank[self._itemp]" in src),
        ("S/N = response[itemp, peak_bin]", "self._best_snr = self._convs[self._itemp, self._peak_bin]" in src),
    ]
    for what, ok in checks:
        (res.ok if ok else res.bad)("R2", cp, cp.node, what if ok else f"MatchedFilter._compute no longer satisfies: {what}", construct=what, key=what[:50])
    init = prog.func(F, "MatchedFilter.__init__")
    src = norm(init.node)
    ok = "self._zscores = estimate_zscore(self.data, loc_method=loc_method, scale_method=scale_method)" in src and \
        src.find("self._setup_templates(nbins_max, spacing_factor)") < src.find("self._compute()") and "self._compute()" in src
    (res.ok if ok else res.bad)("R2", init, init.node, "data are standardised, the bank is built, then responses are computed" if ok else
                                "MatchedFilter.__init__ no longer standardises the data before computing responses", construct="__init__", key="init")
    props = {"peak_bin": "int(self._peak_bin)", "best_temp": "self._best_temp", "snr": "self._best_snr", "convs": "self._convs"}
    mf = prog.cls(F, "MatchedFilter")
    for p, w in props.items():
        m = mf.methods.get(p)
        rets = [s for s in body_walk(m.node) if isinstance(s, ast.Return)] if m else []
        ok = len(rets) == 1 and norm(rets[0].value) == w
        (res.ok if ok else res.bad)("R2", m, m.node if m else mf.node, f"{p} reports {w}" if ok else f"property {p} no longer reports {w}", construct=p, key=f"prop:{p}")
    # ---- R3 exhaustiveness ---------------------------------------------------------------------------
    kinds_node = prog.const("sigpyproc.core.custom_types", "MatchFilterMethods")
    kinds = [e.value for e in kinds_node.slice.elts] if isinstance(kinds_node, ast.Subscript) and isinstance(kinds_node.slice, ast.Tuple) else None
    if not kinds:
        raise AnalysisError("MatchFilterMethods literal not found")
    st = prog.func(F, "MatchedFilter._setup_templates")
    ga = [c for c in calls_in_body(st.node) if dotted(c.func) == "getattr" and len(c.args) == 2 and isinstance(c.args[1], ast.JoinedStr)]
    tmpl = prog.cls(F, "Template")
    ok = len(ga) == 1 and norm(ga[0].args[0]) == "Template" and norm(ga[0].args[1]) == "f'gen_{self.temp_kind}'"
    missing = [k for k in kinds if f"gen_{k}" not in tmpl.methods or not tmpl.methods[f"gen_{k}"].is_classmethod]
    if ok and not missing:
        res.ok("R3", st, ga[0], f"gen_{{kind}} exists as a classmethod for every kind in {kinds}", key="dispatch")
    else:
        res.bad("R3", st, st.node, f"template dispatch cannot resolve kinds {missing or kinds}", construct="dispatch", key="dispatch")
    pi = tmpl.methods.get("__attrs_post_init__")
    ok = pi is not None and "if self.ref_bin >= self.data.size:" in norm(pi.node) and "raise ValueError(msg)" in norm(pi.node)
    (res.ok if ok else res.bad)("R3", pi, pi.node if pi else tmpl.node, "a reference bin outside the template raises ValueError" if ok else
                                "Template no longer validates ref_bin < size", construct="ref_bin", key="ref_bin")
    for k, ref in (("boxcar", "ref_bin=0"), ("gaussian", "ref_bin = len(x) // 2"), ("lorentzian", "ref_bin = len(x) // 2")):
        g = tmpl.methods.get(f"gen_{k}")
        ok = g is not None and ref in norm(g.node)
        (res.ok if ok else res.bad)("R3", g, g.node if g else tmpl.node, f"gen_{k}: reference bin {'at the start' if k == 'boxcar' else 'at the peak (centre of a symmetric support)'}"
                                    if ok else f"gen_{k}: reference bin definition changed", construct=f"gen_{k}", key=f"gen:{k}")
    res.floor("R1", 4)
    res.floor("R2", 10)
    res.floor("R3", 5)


KF = "sigpyproc/core/kernels.py"
FF = "sigpyproc/core/filters.py"
MUTANTS = [
    {"id": "c13-revert-F18b", "file": KF, "expect": "C13.R1",
     "old": "        conv = np.fft.irfft(data_fft * np.fft.rfft(temp_norm), len(data_pad))", "new": "        conv = np.fft.irfft(data_fft * np.fft.rfft(temp_norm))"},
    {"id": "c13-no-time-reverse", "file": KF, "expect": "C13.R1",
     "old": "        temp_pad = np.roll(temp_pad[::-1], 1)\n", "new": ""},
    {"id": "c13-roll-plus-ref", "file": KF, "expect": "C13.R1",
     "old": "        temp_pad = np.roll(temp_pad, -ref_bin[itemp])", "new": "        temp_pad = np.roll(temp_pad, ref_bin[itemp])"},
    {"id": "c13-norm-no-mean", "file": KF, "expect": "C13.R1",
     "old": "    arr_norm = arr - mean\n    norm = np.sqrt(np.sum(arr_norm**2))", "new": "    arr_norm = arr\n    norm = np.sqrt(np.sum(arr_norm**2))"},
    {"id": "c13-snr-wrong-index", "file": FF, "expect": "C13.R2",
     "old": "        self._best_snr = self._convs[self._itemp, self._peak_bin]", "new": "        self._best_snr = self._convs[self._peak_bin % self._convs.shape[0], self._itemp]"},
    {"id": "c13-raw-data-convolved", "file": FF, "expect": "C13.R2",
     "old": "            self.zscores.data,\n            temp_kernels,", "new": "            self.data,\n            temp_kernels,"},
    {"id": "c13-refbins-reversed", "file": FF, "expect": "C13.R2",
     "old": "        ref_bins = typed.List([temp.ref_bin for temp in self.temp_bank])", "new": "        ref_bins = typed.List([temp.ref_bin for temp in self.temp_bank[::-1]])"},
    {"id": "c13-gen-renamed", "file": FF, "expect": "C13.R3",
     "old": "    def gen_lorentzian(cls, width: float, extent: float = 3.5) -> Template:", "new": "    def gen_lorentz(cls, width: float, extent: float = 3.5) -> Template:"},
    {"id": "c13-pad-linear", "file": KF, "expect": "C13.R1",
     "old": "        result[i] = arr[i % n]", "new": "        result[i] = arr[min(i, n - 1)]"},
]
TWINS = []
