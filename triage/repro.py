"""Dynamic reproducers for findings F01..F24 of DESIGN.md (triage aid, not a check)."""
from __future__ import annotations

import logging
import os
import sys
import tempfile
import warnings

import numpy as np

warnings.filterwarnings("ignore")
logging.disable(logging.CRITICAL)

import astropy.units as u  # noqa: E402
from astropy.coordinates import SkyCoord  # noqa: E402

from sigpyproc.block import FilterbankBlock  # noqa: E402
from sigpyproc.core import stats  # noqa: E402
from sigpyproc.core.filters import MatchedFilter  # noqa: E402
from sigpyproc.core.rfi import RFIMask  # noqa: E402
from sigpyproc.foldedcube import FoldedData  # noqa: E402
from sigpyproc.fourierseries import FourierSeries  # noqa: E402
from sigpyproc.header import Header  # noqa: E402
from sigpyproc.readers import FilReader, PFITSReader  # noqa: E402
from sigpyproc.timeseries import TimeSeries  # noqa: E402

Q = {"quiet": True}
RNG = np.random.default_rng(7)
FITS = "/repo/tests/data/parkes_4bit.sf"


def hdr(n: int, c: int = 16, nbits: int = 8, fch1: float = 400.0, foff: float = -1.0, **kw) -> Header:
    kw.setdefault("data_type", "filterbank")
    return Header(filename="x.fil", nchans=c, foff=foff, fch1=fch1, nbits=nbits,
                  tsamp=0.001, tstart=58000.0, nsamples=n, **kw)


def mkfil(name: str, data: np.ndarray, **kw) -> FilReader:
    n, c = data.shape
    w = hdr(n, c, **kw).prep_outfile(name)
    w.cwrite(data.ravel())
    w.close()
    return FilReader(name)


def outcome(f):
    try:
        return ("ok", f())
    except Exception as exc:  # noqa: BLE001
        return ("exc", f"{type(exc).__name__}: {str(exc)[:90]}")


N, C = 256, 16
DATA = RNG.integers(0, 255, size=(N, C)).astype(np.uint8)


def F01(fil):
    kind, val = outcome(lambda: [n for n, _, _ in fil.read_plan(gulp=16, start=10, nsamps=50, **Q)])
    return kind == "exc", f"read_plan(gulp=16,start=10,nsamps=50) on N={N}: {val}"


def F02(fil):
    # skipback between gulp/2 and gulp: accepted, must then deliver exactly [start, start+nsamps)
    got = []
    kind, val = outcome(lambda: [(n, d.copy()) for n, _, d in fil.read_plan(gulp=10, start=0, nsamps=11, skipback=8, **Q)])
    if kind == "exc":
        return False, f"plan rejected: {val}"
    end = 0
    furthest = 0
    for k, (n, d) in enumerate(val):
        end = (end - 8 if k else 0) + n
        furthest = max(furthest, end)
    return furthest != 11 or end != 11, (f"read_plan(gulp=10, skipback=8, nsamps=11) blocks {[n for n, _ in val]} reach sample {furthest} "
                                         f"(requested range ends at 11)")


def F03(fil):
    kind, val = outcome(lambda: fil.collapse(gulp=16, start=16, **Q).data.size)
    return kind == "exc", f"collapse(start=16): {val}"


def F04(fil):
    d = fil.header.get_dmdelays(5.0); md = int(d.max())
    ts = fil.dedisperse(5.0, gulp=64, start=16, **Q)
    return ts.data.size != N - 16 - md, f"dedisperse(start=16) length {ts.data.size}, range defines {N - 16 - md}"


def F05(fil):
    # last block of the range is partial: the slice target is sized from the file, not the range
    k1, v1 = outcome(lambda: fil.read_chan(3, gulp=64, start=16, **Q).data.size)
    # range that happens to be a whole number of gulps: no exception, but file-length output
    k2, v2 = outcome(lambda: fil.read_chan(3, gulp=16, start=16, **Q).data.size)
    return k1 == "exc" or v2 != N - 16, f"read_chan(start=16): gulp=64 → {v1}; gulp=16 → length {v2}, range has {N - 16}"


def F06(fil):
    fil.compute_stats(gulp=64, start=16, **Q)
    cs = fil.chan_stats; ref = DATA[16:].astype(float).var(0)
    return not np.allclose(cs.var, ref, rtol=1e-3), f"count={cs.moments['count'][0]} var[0]={cs.var[0]:.1f} two-pass={ref[0]:.1f}"


def F07(fil):
    name = fil.extract_chans(chans=[2], outfile_base="ec", gulp=64, **Q)[0]
    h = Header.from_sigproc(name)
    return h.nsamples != N, f"extract_chans 8-bit→declared {h.nbits}-bit: reader infers {h.nsamples} samples, wrote {N}"


def F08(fil):
    d = fil.header.get_dmdelays(5.0); md = int(d.max())
    out = FilReader(fil.subband(5.0, 4, "sb.fil", gulp=64, **Q))
    blk = out.read_block(0, out.header.nsamples).data
    ref = np.zeros((4, N - md))
    for c in range(C):
        ref[c // 4] += [DATA[t + d[c], c] for t in range(N - md)]
    diff = float(np.abs(blk - ref).max()) if blk.shape == ref.shape else float("inf")
    return diff > 0, f"subband(gulp=64) max |out-definition| = {diff:g}"


def F09(fil):
    out = FilReader(fil.downsample(2, 1, "ds.fil", gulp=1000, **Q))
    blk = out.read_block(0, out.header.nsamples).data
    ref = DATA.reshape(N // 2, 2, C).astype(float).mean(1).astype(np.uint8).T
    return not np.array_equal(blk, ref), f"downsample(tfactor=2) equals block means: {np.array_equal(blk, ref)}"


def F10(_fil):
    data = RNG.integers(0, 255, size=(64, 32)).astype(np.uint8)
    f = mkfil("narrow.fil", data, foff=-0.1)
    h = Header.from_sigproc(f.subband(3.0, 4, "sbh.fil", gulp=1000, **Q))
    bad = not (np.isclose(h.dm, 3.0) and np.isclose(h.foff, -0.8) and 399.3 <= h.fch1 <= 400.0)
    return bad, f"subband header dm={h.dm} foff={h.foff} fch1={h.fch1} (expect 3.0, -0.8, 399.65)"


def F11(fil):
    ts = fil.dedisperse(0.0, gulp=64, start=16, **Q)
    exp = fil.header.mjd_after_nsamps(16)
    return abs(ts.header.tstart - exp) * 86400 > 5e-6, f"dedisperse(start=16).tstart off by {abs(ts.header.tstart - exp) * 86400:.4f} s"


def F12(_fil):
    data = RNG.integers(0, 255, size=(8, 32)).astype(np.uint8)
    f = mkfil("narrow2.fil", data, foff=-0.1)
    bad = [k for k in range(32)
           if not np.array_equal(f.read_block(0, 8, fch1=400.0 + k * -0.1, nchans=1).data[0], data[:, k])]
    return bool(bad), f"read_block(fch1=label of channel k) returns another channel for k={bad}"


def _ts(n=100):
    return TimeSeries(np.arange(n, dtype=np.float32), hdr(n, 1, 32, data_type="time series"))


def F13(_fil):
    back = TimeSeries.from_dat(_ts().to_dat("dd"))
    return back.data.size != 100, f"to_dat→from_dat: wrote 100 samples, read {back.data.size}"


def F14(_fil):
    h = hdr(4, frame="pulsarcentric")
    w = h.prep_outfile("fr.fil"); w.cwrite(np.zeros(64, np.uint8)); w.close()
    got = Header.from_sigproc("fr.fil").frame
    return got != "pulsarcentric", f"frame written pulsarcentric, read back {got}"


def F15(_fil):
    c = SkyCoord("05:34:31.9 -00:30:15.5", unit=(u.hourangle, u.deg))
    h = hdr(4, coord=c)
    w = h.prep_outfile("rd.fil"); w.cwrite(np.zeros(64, np.uint8)); w.close()
    got = Header.from_sigproc("rd.fil").dec
    return str(got) != str(h.dec), f"dec written {h.dec}, read back {got}"


def _impulse_block():
    hh = hdr(128, 16, 32)
    d = hh.get_dmdelays(5.0)
    x = np.zeros((16, 128), np.float32)
    for c in range(16):
        x[c, 40 + d[c]] = 1
    return FilterbankBlock(x, hh)


def F16(_fil):
    blk = _impulse_block()
    dmt = blk.dmt_transform(5.0, dmsteps=3)  # DMs 0, 5, 10
    return dmt.data[1].max() != 16, f"dedisperse(5) peak {blk.dedisperse(5.0).data.sum(0).max():g}; DM-5 row of dmt_transform peak {dmt.data[1].max():g}"


def F17(_fil):
    kind, val = outcome(lambda: _impulse_block().dmt_transform(5.0, dmsteps=3, only_valid_samples=True).data.shape)
    return kind == "exc", f"dmt_transform(only_valid_samples=True): {val}"


def F18(_fil):
    ts = TimeSeries(RNG.normal(size=75).astype(np.float32), hdr(75, 1, 32, data_type="time series"))
    k1, v1 = outcome(lambda: ts.rfft().ifft().data.size)
    x = np.zeros(75, np.float32); x[20:24] = 10
    k2, v2 = outcome(lambda: MatchedFilter(x, loc_method="norm", scale_method="norm", nbins_max=8).peak_bin)
    return k1 == "exc" or k2 == "exc", f"n=75: rfft→ifft {v1}; MatchedFilter {v2}"


def F19(_fil):
    x = RNG.normal(size=(9, 12))
    a0 = stats.estimate_scale(x, "sn", axis=0)
    lanes = np.array([stats.estimate_scale(x[:, j], "sn") for j in range(12)])
    return not np.allclose(a0, lanes), f"sn(axis=0) equals per-column sn: {np.allclose(a0, lanes)}"


def F20(_fil):
    c = SkyCoord("05:34:31.9 -10:30:15.5", unit=(u.hourangle, u.deg))
    h = hdr(4, 8, coord=c)
    m = RFIMask(3.0, h, *(np.arange(8, dtype=np.float32),) * 6)
    m2 = RFIMask.from_file(m.to_file("m.h5"))
    return m2.header.ra != h.ra, f"mask header RA {h.ra} → {m2.header.ra} after to_file/from_file"


def F21(_fil):
    h = hdr(10000)
    cube = RNG.normal(size=(4, 4, 32)).astype(np.float32)
    a = FoldedData(cube.copy(), h, 0.5, 10.0)
    a.update_dm(20.0); once = a.data.copy(); a.update_dm(20.0)
    b = FoldedData(cube.copy(), h, 0.5, 10.0); b.update_dm(15.0); b.update_dm(20.0)
    idem = np.array_equal(a.data, once); hist = np.array_equal(b.data, once)
    return not (idem and hist), f"update_dm(20) twice idempotent: {idem}; 10→15→20 equals 10→20: {hist}"


def F22(_fil):
    f = PFITSReader(FITS); nsblk = f.sub_hdr.subint_samples
    kind, val = outcome(lambda: f.read_block(nsblk - 10, 100).data.shape)
    return kind == "exc", f"PSRFITS read_block({nsblk - 10}, 100) across a row boundary: {val}"


def F23(_fil):
    f = PFITSReader(FITS)
    kind, val = outcome(lambda: [(n, d.size // f.header.nchans) for n, _, d in f.read_plan(gulp=512, nsamps=1024, quiet=True)])
    bad = kind == "exc" or any(n != m for n, m in val)
    return bad, f"PSRFITS read_plan(gulp=512,nsamps=1024) (reported, delivered) samples: {val}"


def F24(_fil):
    h = PFITSReader(FITS).header
    return type(h.foff).__name__ != "float", f"from_pfits foff is {type(h.foff).__name__}, fch1 is {type(h.fch1).__name__}"


def F25(_fil):
    import shutil
    from astropy.io import fits
    shutil.copy(FITS, "asc.sf")
    with fits.open("asc.sf", mode="update") as h:
        t = h["SUBINT"].data
        for i in range(len(t)):
            t["DAT_FREQ"][i] = t["DAT_FREQ"][i][::-1].copy()
        h.flush()
    a, b = PFITSReader(FITS), PFITSReader("asc.sf")
    flipped = np.array_equal(b.read_block(0, 64).data, a.read_block(0, 64).data[::-1])
    return flipped and b.header.foff > 0, (f"ascending PSRFITS: reader flips data to descending order ({flipped}) but header says "
                                           f"fch1={b.header.fch1:.1f} foff={b.header.foff:+.1f}")


def F26(fil):
    ts = fil.read_chan(3, **Q)
    names = fil.extract_chans([5], outfile_base="f26", **Q)
    t2 = TimeSeries.from_tim(names[0])
    want = (fil.header.fch1 + 3 * fil.header.foff, fil.header.fch1 + 5 * fil.header.foff)
    return (ts.header.fch1, t2.header.fch1) != want, f"read_chan(3).fch1={ts.header.fch1} extract_chans([5]).fch1={t2.header.fch1}, channel labels {want}"


def F27(fil):
    # 16 channels 400..385 MHz, tsamp 1 ms: dm=1 gives delays of a few tens of samples
    dm = 1.0
    d = fil.header.get_dmdelays(dm)
    whole = fil.read_block(0, fil.header.nsamples).data
    start, n = 2, 64
    blk = fil.read_dedisp_block(start, n, dm).data
    want = np.stack([whole[c, start + d[c]: start + d[c] + n] for c in range(fil.header.nchans)])
    bad = int((blk != want).sum())
    return bad > 0, f"read_dedisp_block(start={start}, nsamps={n}, dm={dm}): {bad} cells differ from x[c, t + delay_c] (max delay {int(d.max())})"


def F28(fil):
    from sigpyproc.readers import PFITSReader
    f = PFITSReader(FITS)
    dts = {str(d.dtype) for _, _, d in f.read_plan(gulp=64, start=0, nsamps=100, quiet=True)}
    out = outcome(lambda: f.bandpass(quiet=True).data.dtype)
    return dts != {"float32"} or out[0] == "exc", f"PFITSReader.read_plan yields {sorted(dts)}; bandpass() -> {out}"


def F29(fil):
    # the 8-bit header asks for a 32-bit product through the header updates alone (no nbits= argument)
    data = np.arange(5 * fil.header.nchans, dtype=np.float32) + 0.5
    with fil.header.prep_outfile("f29.fil", updates={"nbits": 32}) as out:
        out.cwrite(data)
    back = FilReader("f29.fil")
    width = (os.path.getsize("f29.fil") - back.header.stream_info.entries[0].hdrlen) * 8 // data.size
    return width != back.header.nbits, (f"prep_outfile(updates={{'nbits': 32}}) on an 8-bit header: header declares {back.header.nbits} bits, "
                                        f"data written at {width} bits/sample; reader infers {back.header.nsamples} samples, 5 written")


def F30(fil):
    rng = np.random.default_rng(1)
    x = rng.normal(size=13)
    x[3] += 5
    s1, s2 = stats.estimate_scale(x, "doublemad", axis=0), stats.estimate_scale(-x, "doublemad", axis=0)
    z1, z2 = stats.estimate_zscore(x, "mean", "doublemad").data, stats.estimate_zscore(-x, "mean", "doublemad").data
    bad_s, bad_z = np.flatnonzero(~np.isclose(s1, s2)), np.flatnonzero(~np.isclose(z1, -z2))
    return bad_s.size > 0 or bad_z.size > 0, (f"doublemad on 13 samples: scale(-x) != scale(x) at sample(s) {bad_s.tolist()} (the sample on the median), "
                                              f"zscore(-x) != -zscore(x) at {bad_z.tolist()} with loc_method='mean'")


def F31(fil):
    # a noiseless width-4 boxcar at bin 0 of a series whose length (127) is not FFT-friendly
    x = np.zeros(127, dtype=np.float32)
    x[:4] = 1
    mf = MatchedFilter(x, temp_kind="boxcar", nbins_max=8)
    got = (int(mf.peak_bin), float(mf.best_temp.width))
    return got != (0, 4.0), f"MatchedFilter(boxcar of width 4 at bin 0, n=127): reported (peak_bin, width) = {got}, expected (0, 4.0)"


def F32(fil):
    from sigpyproc.io import bits
    arr = np.arange(8, dtype=np.uint8) % 4
    bad = []
    out = outcome(lambda: bits.pack(arr, 2, bitorder="bogus").tolist())
    if out[0] != "exc" or "ValueError" not in str(out[1]):
        bad.append(f"pack(bitorder='bogus') -> {out}")
    out = outcome(lambda: bits.pack(np.array([1, 2, 3], dtype=np.uint8), 4).tolist())
    if out[0] != "exc" or "ValueError" not in str(out[1]):
        bad.append(f"pack(3 samples, 4 bits) -> {out} (the third sample is dropped)")
    out = outcome(lambda: bits.unpack(np.zeros(2, dtype=np.uint8), 4, np.zeros(4, dtype=np.float32)).tolist())
    if out[0] != "exc" or "ValueError" not in str(out[1]):
        bad.append(f"unpack(float32 buffer) -> {str(out)[:80]}")
    return bool(bad), "; ".join(bad) or "wrong bit order, ragged input and a wrong-dtype buffer are all rejected with ValueError"


def F33(fil):
    from sigpyproc.io import bits
    # 40 bytes at 1 bit: 8 // np.uint8(1) is a uint8 and 40 * 8 wraps to 64 in that width.  The buffer of the right size (320) is
    # supplied, so that nothing is written out of bounds: on the defective tree it is refused as having the wrong size.
    out = outcome(lambda: bits.unpack(np.zeros(40, dtype=np.uint8), np.uint8(1), np.zeros(320, dtype=np.uint8), bitorder="little").size)
    return out != ("ok", 320), f"unpack(40 bytes, nbits=np.uint8(1), buffer of 320) -> {out}"


def F34(fil):
    from sigpyproc import params
    d = params.compute_dmdelays([1400.0], 50.0, 1e-3, 1500.0)
    cube = FoldedData(np.random.default_rng(0).normal(size=(4, 1, 16)).astype(np.float32), fil.header.new_header({"nchans": 1}), 0.1, 10.0)
    out = outcome(lambda: (cube.update_dm(20.0), cube.update_dm(30.0), cube.dm)[-1])
    return np.ndim(d) != 1 or out[0] == "exc", f"compute_dmdelays(one channel) has ndim {np.ndim(d)}; one-sub-band cube: update_dm(20); update_dm(30) -> {out}"


def F35(fil):
    x = np.random.default_rng(2).normal(size=(1, 16))
    out = {m: outcome(lambda m=m: stats.estimate_scale(x, m, axis=1, keepdims=True).shape) for m in ("iqr", "mad")}
    return any(v != ("ok", (1, 1)) for v in out.values()), f"estimate_scale(shape (1, 16), axis=1, keepdims=True): {out}"


def F36(fil):
    sys.path.insert(0, os.path.dirname(os.path.abspath(__file__)))
    from mkfits import make_psrfits, oracle
    info = make_psrfits("f36.sf", nbits=8, npol=1, nsblk=8, nsub=3, nchan=6, ascending=False, zero_off=0.0, pol_type="AA+BB")
    out = outcome(lambda: bool(np.allclose(PFITSReader("f36.sf").read_block(0, 24).data, oracle(info), rtol=1e-6, atol=1e-4)))
    return out != ("ok", True), f"single-polarisation (NPOL=1) 8-bit PSRFITS: read_block(0, 24) equals the oracle -> {out}"


def F37(fil):
    from sigpyproc.io import sigproc
    enc = sigproc.encode_key("source_name", value="SGR_\u03b2", value_type="str")
    declared = int(np.frombuffer(enc[4 + len("source_name"): 8 + len("source_name")], dtype=np.uint32)[0])
    actual = len(enc) - 8 - len("source_name")
    return declared != actual, f"encode_key('source_name', 'SGR_\u03b2'): length prefix {declared}, {actual} bytes follow"


def F38(fil):
    # the fixture band descends (foff < 0): a negative DM makes every channel but the first lead the reference
    dm = -1.0
    d = fil.header.get_dmdelays(dm).astype(int)
    lo = min(0, int(d.min()))
    whole = fil.read_block(0, fil.header.nsamples).data.astype(np.float64)
    shift = d - lo
    length = fil.header.nsamples - int(shift.max())
    want = np.array([whole[np.arange(fil.header.nchans), t + shift].sum() for t in range(length)], dtype=np.float32)
    out = {}
    for gulp in (16384, 64):
        tim = fil.dedisperse(dm, gulp=gulp, quiet=True)
        out[gulp] = (tim.data.size, bool(tim.data.size == length and np.array_equal(tim.data, want)))
    return any(not ok for _, ok in out.values()), (f"dedisperse(dm={dm}) with delays {int(d.min())}..{int(d.max())}: (length, equals sum_c x[c, t + delay_c - min delay]) "
                                                   f"per gulp = {out}, expected length {length}")


def F39(fil):
    k = 10
    f_k = fil.header.fch1 + k * fil.header.foff
    blk = fil.read_block(0, 8, fch1=f_k)
    out = outcome(lambda: fil.read_block(0, 8, fch1=f_k, nchans=fil.header.nchans).data.shape[0])
    off = fil.read_block(0, 8, fch1=f_k + 0.3 * fil.header.foff, nchans=2)
    bad = []
    if blk.header.nchans != blk.data.shape[0]:
        bad.append(f"fch1 of channel {k}, default nchans: header nchans {blk.header.nchans}, {blk.data.shape[0]} rows")
    if out[0] != "exc":
        bad.append(f"request reaching past the band accepted ({out[1]} rows for nchans={fil.header.nchans})")
    if abs(off.header.fch1 - f_k) > 1e-9:
        bad.append(f"request 0.3 channels off the grid labelled {off.header.fch1}, rows are channels {k}.. centred on {f_k}")
    return bool(bad), "; ".join(bad) or "sub-band requests give as many rows as the header declares, labelled with the channel centres"


def F40(fil):
    blk = fil.read_block(0, 128).dedisperse(5.0)
    ds = blk.downsample(tfactor=2)
    name = blk.to_file("f40.fil")
    back = FilReader(name)
    got = (ds.dm, blk.normalise().dm, back.header.dm)
    return got != (5.0, 5.0, 5.0), f"block dedispersed at DM 5: downsample().dm, normalise().dm, refdm of to_file() = {got}"


def F41(fil):
    blk = fil.read_block(0, 128)
    d = fil.header.get_dmdelays(1.0, ref_freq="min")
    lead = max(0, -int(d.min()))
    out = blk.dedisperse(1.0, only_valid_samples=True, ref_freq="min")
    off = (out.header.tstart - fil.header.tstart) * 86400 / fil.header.tsamp
    return abs(off - lead) > 1e-3, f"valid-samples dedispersion with ref_freq='min' drops the first {lead} samples; tstart advanced by {off:.3f} samples"


def F42(fil):
    from sigpyproc.core import kernels
    n = 2**21
    a = np.zeros(1, dtype=kernels.moments_dtype)
    b = np.zeros(1, dtype=kernels.moments_dtype)
    c = np.zeros(1, dtype=kernels.moments_dtype)
    # two halves with different means and the same spread, given as exact moment records (no data needed)
    for rec, mean in ((a, 0.0), (b, 2.0)):
        rec["count"], rec["m1"], rec["m2"], rec["m4"] = n // 2, mean, n // 2, 3 * (n // 2)
    kernels.add_online_moments(a, b, c)
    kurt = float(c["m4"][0] * n / c["m2"][0] ** 2 - 3)
    # exact: m2 = 2n, m4 = 3n + n + 6n = 10n, kurtosis = 10/4 - 3
    return abs(kurt + 0.5) > 1e-3, f"merged kurtosis of two unit-variance halves of 2**20 samples with means 0 and 2: {kurt:.3f} (exact value -0.5)"


def F43(fil):
    fil.compute_stats_basic(quiet=True)
    _, mask = fil.clean_rfi(outfile_name="f43.fil", quiet=True)
    return bool(np.all(mask.chan_skew == 0) and np.all(mask.chan_kurt == -3)), (
        f"clean_rfi after compute_stats_basic: skew all zero = {bool(np.all(mask.chan_skew == 0))}, kurtosis all -3 = {bool(np.all(mask.chan_kurt == -3))}")


def F44(fil):
    from sigpyproc.core.rfi import iqrm_mask
    x = np.random.default_rng(3).normal(size=128)
    x[40] += 60
    full = np.repeat(x, 2)
    a, b = iqrm_mask(full[::2], 3.0), iqrm_mask(full[::2].copy(), 3.0)
    return not np.array_equal(a, b), f"iqrm_mask on a strided view vs its contiguous copy: {int((a != b).sum())} channels differ"


def F45(fil):
    m = RFIMask(3.0, fil.header, *(np.zeros(fil.header.nchans, dtype=np.float32) for _ in range(6)))
    f = fil.header.chan_freqs
    m.apply_mask([(f[2], f[2])])
    m.apply_mask([(f[5], f[5])])
    union = m.user_mask | m.stats_mask | m.custom_mask
    return not np.array_equal(union, m.chan_mask), (f"after two apply_mask calls chan_mask has channels {np.flatnonzero(m.chan_mask).tolist()}, "
                                                    f"the union of the stored components {np.flatnonzero(union).tolist()}")


def F46(fil):
    from sigpyproc.core import kernels
    n, nbins, tsamp = 2**23 + 2**21, 10, 6.4e-5
    x = np.zeros(n, dtype=np.float32)
    x[1::10] = 1.0  # one pulse every 10 samples, always in phase bin 1 of 10
    fold_ar, count_ar = np.zeros(nbins * 8, dtype=np.float32), np.zeros(nbins * 8, dtype=np.int32)
    kernels.fold(x, fold_ar, count_ar, np.zeros(1, dtype=np.int32), 0, tsamp, 10 * tsamp, 0.0, n, n, 1, nbins, 8, 1, 0)
    occupied = [np.flatnonzero(row).tolist() for row in fold_ar.reshape(8, nbins)]
    return any(o != [1] for o in occupied), f"pulse every 10 samples folded at period 10*tsamp over {n} samples: occupied bins per sub-integration {occupied}"


def F47(fil):
    from sigpyproc.core import kernels
    n = 1_700_000
    x = (0.5 * np.arange(n) + 3.0).astype(np.float64)
    res = kernels.detrend_1d(x)
    err = float(np.abs(res).max())
    return err > 1e-3, f"detrend_1d of an exact straight line of {n} samples: max |residual| = {err:.3g}"


def F48(fil):
    from sigpyproc.io import sigproc
    out = outcome(lambda: sigproc.parse_radec(120000.0, -2e-05).dec.arcsec)
    return out[0] == "exc", f"parse_radec(120000.0, -2e-05) -> {out}"


def F49(fil):
    ts = fil.read_chan(3)
    name = ts.to_dat("f49")
    back = TimeSeries.from_dat(name)
    return abs(back.header.fch1 - ts.header.fch1) > 1e-6, f"read_chan(3).to_dat() -> from_dat(): fch1 {ts.header.fch1} became {back.header.fch1}"


def F50(fil):
    x = np.random.default_rng(3).integers(40, 60, (20, 3)).astype(np.uint8)
    full = stats.ChannelStats(3, 20)
    full.push_data(x.ravel(), 0, mode="full")
    merged = stats.ChannelStats(3, 0) + full
    return not np.array_equal(merged.minima, x.min(axis=0)), f"empty + full accumulator: minima {merged.minima.tolist()}, data minima {x.min(axis=0).tolist()}"


def F51(fil):
    from sigpyproc.io.fileio import FileReader
    fr = FileReader(fil.header.stream_info, mode="rb", nbits=8)
    pos = fr.cur_data_pos_stream
    first = fr.cread(fil.header.nchans)
    want = fil.read_block(0, 1).data[:, 0]
    return pos != 0 or not np.array_equal(first, want), f"fresh FileReader: stream position {pos}, first cread equals the first sample: {bool(np.array_equal(first, want))}"


def F52(fil):
    out = outcome(lambda: fil.subband(0.0, 3, outfile_name="f52.sub", quiet=True))
    return out[0] != "exc" or "ValueError" not in str(out[1]), f"subband(nsub=3) on a {fil.header.nchans}-channel file -> {str(out)[:120]}"


def F53(fil):
    from sigpyproc.fourierseries import FourierSeries
    from sigpyproc.header import Header
    from sigpyproc.timeseries import TimeSeries
    bad = []
    for n in (8, 64, 100, 1000):
        x = np.random.default_rng(n).normal(size=n).astype(np.float32)
        hdr = Header(filename="x.tim", data_type="time series", nchans=1, foff=1.0, fch1=1400.0, nbits=32, tsamp=1e-3, tstart=58000.0, nsamples=n)
        fs = TimeSeries(x, hdr).rfft()
        big = fs.header.nsamples
        back = FourierSeries.from_spec(fs.to_spec(f"f53_{n}")).ifft().data
        exp = np.zeros(big, dtype=np.float32)
        exp[:n] = x
        if big % 2 == 0 and (back.size != big or not np.allclose(back, exp, atol=1e-4)):
            bad.append((n, big, back.size))
    return bool(bad), f"rfft -> to_spec -> from_spec -> ifft (n, transform length, returned length): {bad}"


def F54(fil):
    from sigpyproc.core import kernels
    bad = []
    for f in (49, 98, 103, 107, 196):
        r = kernels.downsample_1d_mean(np.full(f * 3, 100, dtype=np.uint8), f)
        if not np.all(r == 100):
            bad.append((f, r.tolist()))
    r2 = kernels.downsample_2d_mean_flat(np.full(7 * 7 * 4, 100, dtype=np.uint8), 7, 7, 14, 14)
    if not np.all(r2 == 100):
        bad.append(("7x7", r2.tolist()))
    return bool(bad), f"mean of a constant-100 uint8 block (factor, result): {bad}"


def F55(fil):
    out = outcome(lambda: fil.extract_chans(chans=[0, -1], outfile_base="f55", quiet=True))
    return out[0] != "exc" or "ValueError" not in str(out[1]), f"extract_chans(chans=[0, -1]) -> {str(out)[:160]}"


def F56(fil):
    blk = fil.read_block(10, 20)
    pad = blk.pad_samples(40, 7)
    want = blk.header.mjd_after_nsamps(-7)
    return abs(pad.header.tstart - want) > 1e-12, f"pad_samples(40, 7): tstart {pad.header.tstart!r}, expected {want!r} (block began at {blk.header.tstart!r})"


def F57(fil):
    from sigpyproc.readers import FilReader
    blk = fil.read_block(0, 64).dedisperse(30.0)
    name = blk.to_file("f57_dm30.fil")
    back = FilReader(name).read_block(0, 32)
    again = FilReader(back.to_file("f57_again.fil")).header.dm
    return back.dm != 30.0 or again != 30.0, f"file written at DM 30: read_block().dm = {back.dm}, refdm after writing that block back = {again}"


def F58(fil):
    from sigpyproc.block import FilterbankBlock
    hdr = fil.header.new_header({"nsamples": 512})
    x = np.zeros((hdr.nchans, 512), dtype=np.float32)
    x[:, 300] = 1
    twice = FilterbankBlock(x, hdr).dedisperse(10).dedisperse(20)
    shift = 300 - np.argmax(twice.data, axis=1)
    d20, d30 = hdr.get_dmdelays(20), hdr.get_dmdelays(30)
    return int(np.abs(shift - d20).max()) > 1, (f"dedisperse(10).dedisperse(20): label {twice.dm}, max |shift - delays(20)| = {int(np.abs(shift - d20).max())}, "
                                                 f"max |shift - delays(30)| = {int(np.abs(shift - d30).max())}")


def F59(fil):
    from sigpyproc.core import rfi
    hdr = fil.header.new_header({"signed": True})
    z = np.arange(hdr.nchans, dtype=np.float32)
    mask = rfi.RFIMask(3.0, hdr, z, z, z, z, z, z)
    gen1 = rfi.RFIMask.from_file(mask.to_file("f59_a.h5"))
    gen2 = rfi.RFIMask.from_file(gen1.to_file("f59_b.h5"))
    return bool(gen1.header.signed) != bool(gen2.header.signed), f"signed: loaded {gen1.header.signed}, loaded -> saved -> loaded {gen2.header.signed}"


def F60(fil):
    from sigpyproc.core.stats import ChannelStats
    st = ChannelStats(2, 1000)
    x = np.zeros((1000, 2), dtype=np.float32)
    x[::2, 0] = 2.0**28          # values {0, 2**28}: two-point distribution, kurtosis -2
    x[:, 1] = np.random.default_rng(1).normal(0, 3e8, 1000).astype(np.float32)
    st.push_data(x.ravel(), 0, mode="full")
    m2 = st.moments["m2"].astype(np.float64)
    true = st.moments["m4"].astype(np.float64) / m2**2 * st.nsamps - 3
    with np.errstate(all="ignore"):
        got = np.asarray(st.kurtosis, dtype=np.float64)
    return not np.allclose(got, true, rtol=1e-3, atol=1e-3), f"kurtosis {got.tolist()} vs m4/m2^2*n-3 in float64 {true.tolist()}"


def K01(fil):
    # known finding, not repaired: samples that are not a whole number of bytes (4-bit x 1 channel)
    from sigpyproc.readers import FilReader
    samples = np.arange(12, dtype=np.uint8)            # value == sample index
    w = hdr(12, 1, nbits=4).prep_outfile("k01.fil", nbits=4)
    w.cwrite(samples)
    w.close()
    r = FilReader("k01.fil")
    whole = r.read_block(0, 12).data[0].astype(int).tolist()
    got = r.read_block(2, 2).data[0].astype(int).tolist()
    return whole == list(range(12)) and got != [2, 3], f"4-bit x 1 channel, samp_stride={r.samp_stride}: read_block(0, 12) = {whole}; read_block(2, 2) = {got}, expected [2, 3]"


ALL = {k: v for k, v in globals().items() if k[:1] in ("F", "K") and k[1:].isdigit()}


def main(argv: list[str]) -> int:
    want = argv or sorted(ALL)
    here = os.getcwd()
    with tempfile.TemporaryDirectory(prefix="sppverif_triage_") as tmp:
        os.chdir(tmp)
        try:
            fil = mkfil("a.fil", DATA)
            for key in want:
                try:
                    hit, msg = ALL[key](fil)
                except Exception as exc:  # noqa: BLE001
                    hit, msg = None, f"reproducer crashed: {type(exc).__name__}: {exc}"
                tag = {True: "REPRODUCED", False: "NOT-REPRODUCED", None: "ERROR"}[hit]
                print(f"{tag} {key} {msg}")
        finally:
            os.chdir(here)
    return 0


if __name__ == "__main__":
    sys.exit(main(sys.argv[1:]))
