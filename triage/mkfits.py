"""Synthetic search-mode PSRFITS builder + independent oracle (plain numpy)."""
from __future__ import annotations

import numpy as np
from astropy.io import fits


def pack4_msb_first(vals: np.ndarray) -> np.ndarray:
    """vals: 1-D uint8 in [0,15], even length -> bytes, first sample high nibble."""
    v = vals.reshape(-1, 2)
    return ((v[:, 0] << 4) | v[:, 1]).astype(np.uint8)


def make_psrfits(
    path,
    *,
    nsblk=8,
    nsub=3,
    nchan=6,
    npol=1,
    nbits=8,
    ascending=False,
    pol_type=None,
    nstot=None,
    zero_off=0.0,
    seed=0,
    unit_scales=False,
    tbin=0.001,
    stt_imjd=58543,
    stt_smjd=28543,
    stt_offs=0.3605,
    extra_subint_hdr=None,
    chan_bw=2.0,
    fref=1400.0,
):
    """Write file; return dict with raw digitised samples and calibration tables.

    raw: (nsub, nsblk, npol, nchan) uint8 (file channel order)
    scl/offs: (nsub, npol, nchan) float32 ; wts: (nsub, nchan) float32
    """
    rng = np.random.default_rng(seed)
    maxv = 16 if nbits == 4 else 256
    raw = rng.integers(0, maxv, size=(nsub, nsblk, npol, nchan), dtype=np.uint8)
    if unit_scales:
        scl = np.ones((nsub, npol, nchan), np.float32)
        offs = np.zeros((nsub, npol, nchan), np.float32)
        wts = np.ones((nsub, nchan), np.float32)
    else:
        scl = rng.uniform(0.5, 3.0, size=(nsub, npol, nchan)).astype(np.float32)
        offs = rng.uniform(-20, 20, size=(nsub, npol, nchan)).astype(np.float32)
        wts = rng.choice([0.0, 0.5, 1.0], size=(nsub, nchan)).astype(np.float32)
    if ascending:
        freqs = fref + chan_bw * np.arange(nchan)
    else:
        freqs = fref + chan_bw * (nchan - 1) - chan_bw * np.arange(nchan)
    if pol_type is None:
        pol_type = {1: "AA+BB", 2: "AABB", 4: "AABBCRCI"}[npol]

    pri = fits.PrimaryHDU()
    h = pri.header
    h["HDRVER"] = "6.1"
    h["FITSTYPE"] = "PSRFITS"
    h["OBSERVER"] = "X"
    h["PROJID"] = "P000"
    h["TELESCOP"] = "Parkes"
    h["ANT_X"] = -4554231.6
    h["ANT_Y"] = 2816759.1
    h["ANT_Z"] = -3454036.1
    h["FRONTEND"] = "UWL"
    h["IBEAM"] = 1
    h["NRCVR"] = 2
    h["FD_POLN"] = "LIN"
    h["FD_HAND"] = -1
    h["FD_SANG"] = 0.0
    h["FD_XYPH"] = 0.0
    h["BACKEND"] = "Medusa"
    h["BECONFIG"] = "Medusa"
    h["BE_PHASE"] = 1
    h["BE_DCC"] = 1
    h["BE_DELAY"] = 0.0
    h["TCYCLE"] = 0
    h["OBS_MODE"] = "SEARCH"
    h["DATE-OBS"] = "2019-03-01T07:55:14"
    h["OBSFREQ"] = float(freqs.mean())
    h["OBSBW"] = float(chan_bw * nchan * (1 if ascending else -1))
    h["OBSNCHAN"] = nchan
    h["CHAN_DM"] = 0.0
    h["SRC_NAME"] = "J0534+2200"
    h["RA"] = "05:34:31.900"
    h["DEC"] = "+22:00:52.000"
    h["FD_MODE"] = "FA"
    h["FA_REQ"] = 0.0
    h["STT_IMJD"] = stt_imjd
    h["STT_SMJD"] = stt_smjd
    h["STT_OFFS"] = stt_offs

    if nbits == 8:
        datacol = raw.reshape(nsub, nsblk * npol * nchan)
        tdim = f"({nchan},{npol},{nsblk})"
    elif nbits == 4:
        packed = np.stack(
            [pack4_msb_first(raw[i].ravel()) for i in range(nsub)],
        )
        datacol = packed
        # same convention as the real Parkes file: time axis halved
        tdim = f"({nchan},{npol},{nsblk // 2})"
    else:
        raise ValueError(nbits)
    nbytes = datacol.shape[1]
    cols = [
        fits.Column(name="TSUBINT", format="1D", unit="s",
                    array=np.full(nsub, nsblk * tbin)),
        fits.Column(name="OFFS_SUB", format="1D", unit="s",
                    array=(np.arange(nsub) + 0.5) * nsblk * tbin),
        fits.Column(name="DAT_FREQ", format=f"{nchan}D", unit="MHz",
                    array=np.tile(freqs, (nsub, 1))),
        fits.Column(name="DAT_WTS", format=f"{nchan}E", array=wts),
        fits.Column(name="DAT_OFFS", format=f"{nchan * npol}E",
                    array=offs.reshape(nsub, -1)),
        fits.Column(name="DAT_SCL", format=f"{nchan * npol}E",
                    array=scl.reshape(nsub, -1)),
        fits.Column(name="DATA", format=f"{nbytes}B", dim=tdim, array=datacol),
    ]
    sub = fits.BinTableHDU.from_columns(cols, name="SUBINT")
    sh = sub.header
    sh["INT_TYPE"] = "TIME"
    sh["POL_TYPE"] = pol_type
    sh["NPOL"] = npol
    sh["TBIN"] = tbin
    sh["NBIN"] = 1
    sh["NBITS"] = nbits
    sh["ZERO_OFF"] = zero_off
    sh["SIGNINT"] = 0
    sh["NSUBOFFS"] = 0
    sh["NCHAN"] = nchan
    sh["CHAN_BW"] = float(chan_bw * (1 if ascending else -1))
    sh["NSBLK"] = nsblk
    if nstot is not None:
        sh["NSTOT"] = nstot
    for k, v in (extra_subint_hdr or {}).items():
        sh[k] = v
    fits.HDUList([pri, sub]).writeto(path, overwrite=True)
    return {
        "raw": raw, "scl": scl, "offs": offs, "wts": wts, "freqs": freqs,
        "zero_off": zero_off, "nstot": nstot if nstot is not None else nsub * nsblk,
        "npol": npol, "pol_type": pol_type, "ascending": ascending,
    }


def oracle(info) -> np.ndarray:
    """Independent expected whole-file data, shape (nchan, nsamples) float32,
    channels in descending-frequency order, scales/offsets/weights applied."""
    raw = info["raw"].astype(np.float32)
    cal = (raw - np.float32(info["zero_off"])) * info["scl"][:, None] + info["offs"][:, None]
    cal = cal * info["wts"][:, None, None, :]
    npol = info["npol"]
    if npol == 1:
        out = cal[:, :, 0, :]
    elif npol == 4 and info["pol_type"].endswith("CRCI"):
        out = (cal[:, :, 0, :] + cal[:, :, 1, :]) * np.float32(1 / np.sqrt(2))
    elif npol == 4:  # stokes -> I
        out = cal[:, :, 0, :]
    else:
        raise NotImplementedError
    out = out.reshape(-1, out.shape[-1])[: info["nstot"]]
    if info["ascending"]:
        out = out[:, ::-1]
    return np.ascontiguousarray(out.T)
