#!/usr/bin/env python3
"""Regenerate /verif/MANIFEST.json from the rule packs that exist (python3-vt tools/gen_manifest.py)."""
import importlib
import json
import sys
from pathlib import Path

ROOT = Path(__file__).resolve().parent.parent
sys.path.insert(0, str(ROOT))

props = [json.loads(l) for l in (ROOT / "properties.jsonl").read_text().splitlines() if l.strip()]
checks, na = [], []
served = []
for p in props:
    pid = p["id"]
    try:
        pack = importlib.import_module(f"sa.rules.{pid.lower()}")
    except ModuleNotFoundError:
        na.append({"property_id": pid, "reason": "check not yet implemented (build in progress)"})
        continue
    if getattr(pack, "NOT_APPLICABLE", None):
        na.append({"property_id": pid, "reason": pack.NOT_APPLICABLE})
        continue
    served.append(pid)
    level = getattr(pack, "LEVEL", "other")
    checks.append({
        "property_id": pid,
        "quick_cmd": f"python3-vt sa/check.py {pid} --tier quick",
        "thorough_cmd": f"python3-vt sa/check.py {pid} --tier thorough",
        "evidence_file": f"/verif/evidence/{pid}.json",
        "replay_cmd_template": "python3-vt sa/check.py --replay {path}",
        "engine": "sa",
        "level_claimed": {
            "category": level,
            "text": " ".join(pack.EXPLANATION.split()),
            "design_ref": f"DESIGN.md section 3, {pid}",
        },
        "level_note": " ".join(getattr(pack, "LEVEL_NOTE", "Static analysis of /repo/sigpyproc source (stdlib ast); "
                               "decides only the structural clauses named in DESIGN.md; numba/numpy semantics "
                               "trusted; values are not computed.").split()),
        "technique": getattr(pack, "TECHNIQUE", "static analysis: repo-specific AST/CFG/dataflow rules"),
    })

manifest = {
    "version": 1,
    "setup_cmd": "python3-vt -m compileall -q sa tools",
    "hooks": {
        "guard": "FRBS_SIGPYPROC3_VERIF",
        "enable": "none needed: the checks read /repo source only and never import or run it",
        "baseline_off_cmd": "cd /repo && /venv/bin/python -m pytest -ra -q -p no:cacheprovider --timeout=900 "
                            "--continue-on-collection-errors",
        "source_commits": [],
        "add_only": True,
    },
    "engines": [{
        "name": "sa",
        "path": "/verif/sa",
        "serves_properties": served,
        "kind_free_text": "repo-specific static analyser: stdlib ast program model, call/type resolver, "
                          "statement CFG with dominators, reaching definitions / dependence, affine access "
                          "relations, bit provenance, canonical polynomial algebra; per-property rule packs",
    }],
    "checks": checks,
    "notes": "Every check is static (source is parsed, never imported or executed). Exit 0 ok / 1 VIOLATION / "
             "2 ANALYSIS-ERROR (anchor vanished or rule instance floor not met: fail closed). thorough = quick "
             "rules + checker self-validation on in-memory mutants/twins of the current source. Known findings: "
             "/verif/known_findings.json ('known' entries are printed as KNOWN-FINDING lines and do not fail the check - "
             "currently K01 under C02; 'fixed' entries suppress nothing).",
    "not_applicable": na,
}
(ROOT / "MANIFEST.json").write_text(json.dumps(manifest, indent=1) + "\n")
print(f"claimed: {served}\nnot applicable/not yet: {[x['property_id'] for x in na]}")
