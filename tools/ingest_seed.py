#!/usr/bin/env python3
"""Confirm a sub-agent's seeded change and store it under /verif/seeded/<id>/.

Usage: python3-vt tools/ingest_seed.py <id> <property> <out_dir> [--needs "..."]
Confirms, in a fresh scratch worktree of /repo (removed afterwards):
  * patch.diff applies to /repo HEAD,
  * the demonstration exits 0 on pristine /repo and non-zero with the patch,
  * the unedited test suite passes with the patch (only the 2 baseline permission tests may fail).
"""
import argparse
import json
import shutil
import subprocess
import sys
import tempfile
from pathlib import Path

ROOT = Path(__file__).resolve().parent.parent
BASELINE_FAIL = {"tests/test_utils.py::TestPaths::test_permission_validation", "tests/test_utils.py::TestPaths::test_read_permission"}


def sh(cmd, **kw):
    return subprocess.run(cmd, shell=True, capture_output=True, text=True, **kw)


def main():
    ap = argparse.ArgumentParser()
    ap.add_argument("id")
    ap.add_argument("property")
    ap.add_argument("out_dir")
    ap.add_argument("--needs", default="")
    ap.add_argument("--skip-suite", action="store_true")
    a = ap.parse_args()
    out = Path(a.out_dir)
    patch, demo = out / "patch.diff", out / "demo.py"
    if not patch.exists() or not demo.exists():
        print(f"{a.id}: missing patch.diff or demo.py in {out}")
        return 1
    wt = Path(tempfile.mkdtemp(prefix=f"ingest_{a.id}_", dir="/tmp"))
    wt.rmdir()
    head = sh("git -C /repo rev-parse --short HEAD").stdout.strip()
    r = sh(f"git -C /repo worktree add -q --detach {wt} HEAD")
    if r.returncode != 0:
        print("cannot create worktree:", r.stderr)
        return 1
    ran = []
    try:
        r = sh(f"git -C {wt} apply {patch}")
        if r.returncode != 0:
            print(f"{a.id}: patch does not apply to HEAD {head}: {r.stderr.strip()[:300]}")
            return 1
        ran.append(f"git apply patch.diff on a scratch worktree of /repo at {head}")
        # the package reads its version from the (git-ignored) egg-info metadata
        if Path("/repo/sigpyproc.egg-info").exists():
            shutil.copytree("/repo/sigpyproc.egg-info", wt / "sigpyproc.egg-info")
        d0 = sh(f"cd /tmp && PYTHONPATH=/repo /venv/bin/python {demo}", timeout=1200)
        d1 = sh(f"cd /tmp && PYTHONPATH={wt} /venv/bin/python {demo}", timeout=1200)
        ran.append(f"demo.py with PYTHONPATH=/repo -> exit {d0.returncode}; with the patched worktree -> exit {d1.returncode}")
        if d0.returncode != 0 or d1.returncode == 0:
            print(f"{a.id}: demonstration does not discriminate: pristine exit {d0.returncode}, patched exit {d1.returncode}")
            print((d0.stdout + d0.stderr)[-600:])
            return 1
        suite = "skipped"
        if not a.skip_suite:
            t = sh(f"cd {wt} && /venv/bin/python -m pytest -q -p no:cacheprovider --timeout=900 -ra tests 2>&1 | tail -15", timeout=3600)
            tail = t.stdout
            failed = {l.split()[1] for l in tail.splitlines() if l.startswith("FAILED")}
            summary = [l for l in tail.splitlines() if " passed" in l or " failed" in l]
            suite = summary[-1].strip() if summary else tail[-200:]
            ran.append(f"full test suite in the patched worktree: {suite}")
            if failed - BASELINE_FAIL or "error" in suite.lower():
                print(f"{a.id}: test suite fails with the patch: {sorted(failed - BASELINE_FAIL)} {suite}")
                return 1
        dst = ROOT / "seeded" / a.id
        dst.mkdir(parents=True, exist_ok=True)
        shutil.copy(patch, dst / "patch.diff")
        shutil.copy(demo, dst / "demo.py")
        if (out / "notes.md").exists():
            shutil.copy(out / "notes.md", dst / "notes.md")
        files = sorted({l.split(" b/")[1] for l in patch.read_text().splitlines() if l.startswith("diff --git")})
        meta = {
            "id": a.id, "property": a.property, "base_commit": head, "files": files,
            "needs_to_manifest": a.needs or "see notes.md",
            "origin": "fresh sub-agent given only the property text and a scratch worktree",
            "confirmed": ran,
            "demo_cmd": f"cd /tmp && PYTHONPATH=<library root> /venv/bin/python /verif/seeded/{a.id}/demo.py",
        }
        (dst / "meta.json").write_text(json.dumps(meta, indent=1) + "\n")
        print(f"{a.id}: confirmed and stored ({suite})")
        return 0
    finally:
        sh(f"git -C /repo worktree remove --force {wt}")
        shutil.rmtree(wt, ignore_errors=True)


if __name__ == "__main__":
    sys.exit(main())
