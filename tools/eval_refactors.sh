#!/bin/sh
# Usage: tools/eval_refactors.sh <dir-with-R*.diff> ...   : every behaviour-preserving refactoring must leave all checks silent.
WT=/tmp/refac_eval_wt
git -C /repo worktree remove --force $WT 2>/dev/null; rm -rf $WT
git -C /repo worktree add -q --detach $WT ${BASE:-HEAD} || exit 2
cd "$(dirname "$0")/.."
props=$(python3 -c "import json;print(' '.join(c['property_id'] for c in json.load(open('MANIFEST.json'))['checks']))")
for d in "$@"; do
  for f in $d/[RPQSTUVO][0-9]*.diff; do
    [ -f "$f" ] || continue
    git -C $WT reset -q --hard; git -C $WT clean -qfd
    if ! git -C $WT apply "$f" 2>/dev/null; then
      if ! git -C $WT apply -3 "$f" >/dev/null 2>&1; then echo "$f: does not apply to $(git -C $WT rev-parse --short HEAD)"; continue; fi
      git -C $WT reset -q
    fi
    alarms=""
    rm -f /tmp/refac_eval_out.*
    for p in $props; do
      ( out=$(SA_REPO=$WT SA_EVIDENCE_DIR=/tmp/refac_eval_ev/$p python3-vt sa/check.py $p 2>&1); code=$?
        if [ $code -ne 0 ]; then echo " $p(exit=$code:$(echo "$out" | grep -o '\[C[0-9]*\.[A-Za-z0-9]*\]' | sort -u | tr -d '\n')$(echo "$out" | grep -c ANALYSIS-ERROR | sed 's/^0$//;s/^[1-9].*/ANALYSIS-ERROR/'))" > /tmp/refac_eval_out.$p; fi ) &
    done
    wait
    alarms=$(cat /tmp/refac_eval_out.* 2>/dev/null | tr -d '\n')
    if [ -z "$alarms" ]; then echo "$f: silent"; else echo "$f: ALARM$alarms"; fi
  done
done
git -C /repo worktree remove --force $WT; rm -rf /tmp/refac_eval_ev
