#!/usr/bin/env python3
"""Regenerate /verif/seeded/README.md from the meta.json files and RESULTS.json."""
import json
from pathlib import Path

ROOT = Path(__file__).resolve().parent.parent
S = ROOT / "seeded"
res = json.loads((S / "RESULTS.json").read_text()) if (S / "RESULTS.json").exists() else {}
rows = []
for d in sorted(p for p in S.iterdir() if (p / "meta.json").exists()):
    m = json.loads((d / "meta.json").read_text())
    r = res.get(d.name, {})
    rep = r.get("reported_by", {})
    own = m["property"]
    caught = ", ".join(f"{p}: {' '.join(x.split('.')[1] for x in rules)}" for p, rules in sorted(rep.items())) or "**missed**"
    errs = ", ".join(f"{p} (exit 2)" for p in sorted(r.get("analysis_errors", {})))
    rows.append(f"| `{d.name}` | {own} | {', '.join(m['files'])} | {m['needs_to_manifest']} | {caught}{'; ' + errs if errs else ''} | "
                f"{'yes' if own in rep else 'no'} |")
txt = f"""# Seeded changes

Each directory holds one change to FRBs/sigpyproc3 that breaks one property while the package still imports and the
unedited test suite still passes. They were written by fresh sub-agents that were given **only the text of the
property** and a scratch git worktree of /repo (nothing from /verif), and each was confirmed here before being kept
(`tools/ingest_seed.py`): the patch applies to /repo HEAD, the demonstration exits 0 on the pristine library and
non-zero with the patch, and the full suite passes with the patch (495 passed + the 2 baseline permission failures).
None of them is ever committed to /repo.

* `patch.diff` - the change (`git -C /repo apply <file>`; undo with `git -C /repo checkout -- .`)
* `demo.py` - `cd /tmp && PYTHONPATH=<library root> /venv/bin/python demo.py`
* `meta.json` - property, what it needs to manifest, what was run to confirm it
* `notes.md` - the author's explanation

`python3-vt tools/eval_seeded.py` applies each patch to /repo in turn, runs every registered quick check, restores
/repo, and writes `RESULTS.json`; the table below is generated from it (`tools/seeded_readme.py`).

| id | property | files | needs, to manifest | reported by (check: rules) | own property's check fires |
|---|---|---|---|---|---|
{chr(10).join(rows)}

{sum(1 for r in res.values() if r.get('caught'))} of {len(res)} evaluated changes are reported by at least one check;
{sum(1 for r in res.values() if r.get('caught_by_own_property'))} by the check of the property they were written against.
"""
(S / "README.md").write_text(txt)
print(txt[-400:])
