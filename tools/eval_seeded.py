#!/usr/bin/env python3
"""Run every claimed quick check against each seeded change under /verif/seeded/<id>/patch.diff.

For each change: `git -C /repo apply patch.diff`, run the checks, `git -C /repo checkout -- .` (always, in a finally).
Nothing is committed to /repo.  Writes /verif/seeded/RESULTS.json and prints a table.
Usage: python3-vt tools/eval_seeded.py [id ...]
"""
import json
import subprocess
import sys
from pathlib import Path

ROOT = Path(__file__).resolve().parent.parent
SEEDED = ROOT / "seeded"


def sh(cmd, **kw):
    return subprocess.run(cmd, shell=True, capture_output=True, text=True, **kw)


def main(argv):
    props = [c["property_id"] for c in json.loads((ROOT / "MANIFEST.json").read_text())["checks"]]
    dirty = sh("git -C /repo status --porcelain --untracked-files=no").stdout.strip()
    if dirty:
        print("refusing: /repo has uncommitted changes:\n" + dirty)
        return 2
    ids = argv or sorted(p.name for p in SEEDED.iterdir() if (p / "patch.diff").exists())
    results = {}
    if (SEEDED / "RESULTS.json").exists():
        results = json.loads((SEEDED / "RESULTS.json").read_text())
    for sid in ids:
        d = SEEDED / sid
        meta = json.loads((d / "meta.json").read_text()) if (d / "meta.json").exists() else {}
        r = sh(f"git -C /repo apply {d / 'patch.diff'}")
        if r.returncode != 0:
            print(f"{sid}: patch does not apply: {r.stderr.strip()[:200]}")
            results[sid] = {"applies": False}
            continue
        try:
            hits = {}
            errors = {}
            for p in props:
                out = sh(f"python3-vt sa/check.py {p} --tier quick", cwd=ROOT, env={**__import__("os").environ, "SA_EVIDENCE_DIR": "/tmp/seed_eval_evidence"})
                if out.returncode == 1:
                    rules = sorted({l.split("[")[1].split("]")[0] for l in out.stdout.splitlines() if l.startswith("sigpyproc/") and "[" in l})
                    hits[p] = rules
                elif out.returncode != 0:
                    errors[p] = (out.stdout.strip().splitlines() or ["?"])[-1][:200]
            results[sid] = {"applies": True, "property": meta.get("property"), "reported_by": hits, "analysis_errors": errors,
                            "caught": bool(hits), "caught_by_own_property": meta.get("property") in hits}
        finally:
            sh("git -C /repo checkout -- .")
        own = meta.get("property")
        print(f"{sid}: property {own}: " + (f"CAUGHT by {hits}" if hits else "MISSED") + (f"  errors: {errors}" if errors else ""))
    (SEEDED / "RESULTS.json").write_text(json.dumps(results, indent=1, sort_keys=True) + "\n")
    sh("rm -rf /tmp/seed_eval_evidence")
    return 0


if __name__ == "__main__":
    sys.exit(main(sys.argv[1:]))
