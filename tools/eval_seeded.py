#!/usr/bin/env python3
"""Run every claimed quick check against each seeded change under /verif/seeded/<id>/patch.diff.

Each change is applied to a scratch worktree under /tmp (SA_REPO points the checks at it); /repo is never touched.  Writes /verif/seeded/RESULTS.json and prints a table.
Usage: python3-vt tools/eval_seeded.py [id ...]
"""
import json
import subprocess
import sys
from pathlib import Path

ROOT = Path(__file__).resolve().parent.parent
SEEDED = ROOT / "seeded"


def sh(cmd, **kw):
    return subprocess.run(cmd, shell=True, capture_output=True, text=True, **kw)


def main(argv):
    """Each change is applied to a scratch worktree of /repo's HEAD under /tmp (never to /repo); the worktree is removed."""
    import os
    from concurrent.futures import ThreadPoolExecutor
    props = [c["property_id"] for c in json.loads((ROOT / "MANIFEST.json").read_text())["checks"]]
    wt = "/tmp/seed_eval_wt"
    sh(f"git -C /repo worktree remove --force {wt}; rm -rf {wt}")
    if sh(f"git -C /repo worktree add -q --detach {wt} HEAD").returncode != 0:
        print("cannot create scratch worktree")
        return 2
    ids = argv or sorted(p.name for p in SEEDED.iterdir() if (p / "patch.diff").exists())
    results = {}
    if (SEEDED / "RESULTS.json").exists():
        results = json.loads((SEEDED / "RESULTS.json").read_text())
    try:
        for sid in ids:
            d = SEEDED / sid
            meta = json.loads((d / "meta.json").read_text()) if (d / "meta.json").exists() else {}
            sh(f"git -C {wt} reset -q --hard; git -C {wt} clean -qfd")
            r = sh(f"git -C {wt} apply {d / 'patch.diff'}")
            if r.returncode != 0:
                r = sh(f"git -C {wt} apply -3 {d / 'patch.diff'} && git -C {wt} reset -q")
            if r.returncode != 0:
                print(f"{sid}: patch does not apply: {r.stderr.strip()[:200]}")
                results[sid] = {"applies": False}
                continue
            hits = {}
            errors = {}

            def one(p):
                return p, sh(f"python3-vt sa/check.py {p} --tier quick", cwd=ROOT,
                             env={**os.environ, "SA_REPO": wt, "SA_EVIDENCE_DIR": f"/tmp/seed_eval_evidence/{p}"})

            with ThreadPoolExecutor(max_workers=16) as ex:
                for p, out in ex.map(one, props):
                    if out.returncode == 1:
                        hits[p] = sorted({l.split("[")[1].split("]")[0] for l in out.stdout.splitlines() if l.startswith("sigpyproc/") and "[" in l})
                    elif out.returncode != 0:
                        errors[p] = (out.stdout.strip().splitlines() or ["?"])[-1][:200]
            results[sid] = {"applies": True, "property": meta.get("property"), "reported_by": hits, "analysis_errors": errors,
                            "caught": bool(hits), "caught_by_own_property": meta.get("property") in hits}
            own = meta.get("property")
            print(f"{sid}: property {own}: " + (f"CAUGHT by {hits}" if hits else "MISSED") + (f"  errors: {errors}" if errors else ""), flush=True)
    finally:
        sh(f"git -C /repo worktree remove --force {wt}; rm -rf {wt} /tmp/seed_eval_evidence; git -C /repo worktree prune")
    (SEEDED / "RESULTS.json").write_text(json.dumps(results, indent=1, sort_keys=True) + "\n")
    return 0


if __name__ == "__main__":
    sys.exit(main(sys.argv[1:]))
