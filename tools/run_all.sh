#!/bin/sh
# Run every claimed check (quick by default) and print one line per property.
tier=${1:-quick}
cd "$(dirname "$0")/.."
rc=0
for p in $(python3 -c "import json;print(' '.join(c['property_id'] for c in json.load(open('MANIFEST.json'))['checks']))"); do
  out=$(python3-vt sa/check.py "$p" --tier "$tier" 2>&1); code=$?
  echo "$p exit=$code $(echo "$out" | grep -c VIOLATION) violation(s) $(echo "$out" | grep -c KNOWN-FINDING) known"
  [ $code -ne 0 ] && rc=1 && echo "$out" | grep -A3 "^sigpyproc\|ANALYSIS-ERROR" | head -20
done
exit $rc
