#!/bin/sh
# Runs the in-memory mutant/twin self-test of every property in parallel; prints one line per property and the failures.
cd "$(dirname "$0")/.."
tmp=$(mktemp -d)
for i in $(seq -w 1 20); do
  ( python3-vt -m sa.selftest C$i > $tmp/C$i.txt 2>&1
    echo "C$i caught=$(grep -c ' caught ' $tmp/C$i.txt) silent=$(grep -c ' silent' $tmp/C$i.txt) $(python3 - $tmp/C$i.txt <<'P'
import re,sys
t=open(sys.argv[1]).read()
m=re.search(r'"failed": \[(.*?)\]\s*\}',t,re.S)
print("failed="+(" ".join(m.group(1).split())[:600] if m else "NO-SUMMARY "+t[-400:])+(" SKIPPED="+" ".join(re.findall(r"^(\S+) skipped", t, re.M)) if " skipped " in t else ""))
P
)" ) &
done
wait
rm -rf $tmp
